import sys, os; sys.modules['mpi4py'] = None; sys.path.insert(0, os.getcwd())
os.environ['OMP_NUM_THREADS'] = '2'
import math
import numpy as np
import enspara
assert enspara.__file__.startswith(os.getcwd()), enspara.__file__
from enspara.geometry import libdist

# exact reference with Python big integers
def ref_euclidean(X, y):
    return np.array([math.sqrt(sum((int(a) - int(b)) ** 2 for a, b in zip(r, y))) for r in X])
def ref_manhattan(X, y):
    return np.array([float(sum(abs(int(a) - int(b)) for a, b in zip(r, y))) for r in X])

cases = [
    # (kernel, reference, dtype, X, y)  -- every value is an ordinary in-range element of its dtype
    ('euclidean', ref_euclidean, np.int64, [[4_000_000_000, 0]], [0, 0]),   # square wraps negative -> nan
    ('euclidean', ref_euclidean, np.int64, [[5_000_000_000, 3]], [0, 0]),   # square wraps positive -> silently wrong
    ('euclidean', ref_euclidean, np.int64, [[2_000_000_000, 1]], [-2_000_000_000, 1]),
    ('euclidean', ref_euclidean, np.int32, [[2_000_000_000, 1]], [-2_000_000_000, 1]),  # 32-bit difference wraps
    ('manhattan', ref_manhattan, np.int32, [[2_000_000_000, 1]], [-2_000_000_000, 1]),
    ('manhattan', ref_manhattan, np.int64, [[6 * 10**18, 0]], [-6 * 10**18, 0]),
]
bad = 0
for name, ref, dt, X, y in cases:
    X = np.array(X, dtype=dt); y = np.array(y, dtype=dt)
    got = getattr(libdist, name)(X, y)
    exp = ref(X, y)
    ok = np.allclose(got, exp, rtol=1e-12, atol=0)
    print('%-9s %-5s X=%s y=%s -> got %s, expected %s  %s' % (
        name, np.dtype(dt).name, X.tolist(), y.tolist(), got, exp, 'ok' if ok else 'WRONG'))
    bad += not ok
if bad:
    print('%d of %d integer inputs give a wrong distance (C integer overflow in the kernel)' % (bad, len(cases)))
    sys.exit(1)
print('all correct')

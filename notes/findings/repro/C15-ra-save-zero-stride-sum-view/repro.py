import sys, os; sys.modules['mpi4py'] = None; sys.path.insert(0, os.getcwd())
os.environ['OMP_NUM_THREADS'] = '2'
import warnings; warnings.simplefilter('ignore')
import tempfile
import numpy as np
import enspara
from enspara import ra
assert enspara.__file__.startswith(os.getcwd()), enspara.__file__

fn = os.path.join(tempfile.mkdtemp(), 'x.h5')
bad = []

# (a) a rectangular (n, 1) array viewed in reverse row order (e.g. one feature
#     per frame, time-reversed).  `base` is larger than the view so that what is
#     (wrongly) read is deterministic.
base = np.arange(8.).reshape(8, 1)
x = base[:4][::-1]                      # [[3],[2],[1],[0]], strides (-8, 8)
ra.save(fn, x)
y = ra.load(fn)
if not np.array_equal(y, x):
    bad.append("x = base[:4][::-1], x.ravel() = %s, strides %s -> loaded %s"
               % (x.ravel().tolist(), x.strides, y.ravel().tolist()))

# (b) 3-D rectangular array of shape (n, 2, 1), reversed along the first axis
base3 = np.arange(16.).reshape(8, 2, 1)
x3 = base3[:3][::-1]                    # strides (-16, 8, 8): sum is 0
ra.save(fn, x3)
y3 = ra.load(fn)
if not np.array_equal(y3, x3):
    bad.append("x = base[:3][::-1] of shape (3,2,1), x.ravel() = %s, strides %s -> loaded %s"
               % (x3.ravel().tolist(), x3.strides, y3.ravel().tolist()))

# controls: contiguous copy of the same values, and other reversed views, are fine
ra.save(fn, np.ascontiguousarray(x)); assert np.array_equal(ra.load(fn), x)
c = np.arange(12.).reshape(4, 3)[::-1]
ra.save(fn, c); assert np.array_equal(ra.load(fn), c)

if bad:
    print("C15 VIOLATED: ra.save silently stores wrong values for non-contiguous "
          "rectangular arrays whose byte strides sum to zero")
    for b in bad:
        print("  -", b)
    sys.exit(1)
print("ok")

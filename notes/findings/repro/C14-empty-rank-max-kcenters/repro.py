import sys, os; sys.modules['mpi4py'] = None; sys.path.insert(0, os.getcwd())
os.environ['OMP_NUM_THREADS'] = '2'
# C14: with more ranks than trajectories some rank owns no frame.  striped_array_max then
# raises ValueError on that rank (instead of returning the global maximum), and so does
# kcenters(mpi_mode=True) at its very first collective.
import threading, traceback, warnings, logging, copy
warnings.simplefilter('ignore'); logging.disable(logging.CRITICAL)
import numpy as np
import enspara
assert os.path.abspath(enspara.__file__).startswith(os.getcwd()), enspara.__file__
import enspara.mpi as empi
from enspara.mpi import ops
from enspara.cluster import kcenters as kc

# ---------------------------------------------------------------- fake MPI world (threads)
_tls = threading.local()
class _Ops: SUM = 'SUM'; MAX = 'MAX'
class FakeComm:
    def __init__(self, n):
        self.n, self.slots, self.bar = n, [None] * n, threading.Barrier(n, timeout=30)
    def _x(self, v):
        self.slots[_tls.rank] = v; self.bar.wait(); got = list(self.slots); self.bar.wait(); return got
    def Barrier(self): self._x(None)
    barrier = Barrier
    def bcast(self, v, root=0): return copy.deepcopy(self._x(v)[int(root)])
    def Bcast(self, buf, root=0):
        got = self._x(np.array(buf, copy=True))
        if _tls.rank != int(root): buf[...] = got[int(root)]
    def allgather(self, v): return copy.deepcopy(self._x(v))
    def allreduce(self, v, op='SUM'):
        got = self._x(v); return max(got) if op == 'MAX' else sum(got[1:], got[0])
def run_world(n, fn):
    comm = FakeComm(n); saved = (empi.rank, empi.size, empi.comm, empi.mpi4py)
    empi.rank, empi.size, empi.comm, empi.mpi4py = (lambda: _tls.rank), (lambda: n), comm, _Ops
    res, err = [None] * n, [None] * n
    def tgt(r):
        _tls.rank = r
        try: res[r] = fn(r)
        except threading.BrokenBarrierError: pass
        except BaseException: err[r] = traceback.format_exc(); comm.bar.abort()
    ths = [threading.Thread(target=tgt, args=(r,)) for r in range(n)]
    [t.start() for t in ths]; [t.join() for t in ths]
    empi.rank, empi.size, empi.comm, empi.mpi4py = saved
    return res, err
# ----------------------------------------------------------------------------------------

failed = False

# 1. the reduction on its own: two frames dealt to three ranks ([1.5], [0.5], [])
pieces = [np.array([1.5]), np.array([0.5]), np.array([])]
res, err = run_world(3, lambda r: (ops.striped_array_max(pieces[r]), ops.striped_array_mean(pieces[r])))
for r in range(3):
    if err[r]:
        failed = True
        print("striped_array_max, rank %d (local array %s): CRASHED: %s   (serial definition: max = 1.5)"
              % (r, pieces[r].tolist(), err[r].strip().splitlines()[-1]))
    elif res[r] is not None:
        print("striped_array_max/mean, rank %d:" % r, res[r])
# striped_array_mean copes with the same striping:
res, err = run_world(3, lambda r: ops.striped_array_mean(pieces[r]))
print("striped_array_mean on the same striping:", res, "(serial definition: 1.0)")

# 2. distributed k-centers: 2 trajectories on 3 ranks vs. the serial algorithm
lengths = np.array([3, 4]); starts = [0, 3, 7]
X = np.random.default_rng(0).normal(size=(7, 2))
serial = kc.kcenters(X, 'euclidean', n_clusters=3)
print("serial k-centers: centers", [int(c) for c in serial.center_indices], "labels", serial.assignments.tolist())
for n in (2, 3):
    def rank_main(r):
        own = [X[starts[t]:starts[t + 1]] for t in range(2)][r::n]
        local = np.concatenate(own) if own else np.zeros((0, 2))
        res = kc.kcenters(local, 'euclidean', n_clusters=3, mpi_mode=True)
        return ops.convert_local_indices(res.center_indices, lengths), res.assignments
    res, err = run_world(n, rank_main)
    if any(err):
        failed = True
        r = [i for i, e in enumerate(err) if e][0]
        print("kcenters(mpi_mode=True) on %d ranks: rank %d CRASHED:" % (n, r)); print(err[r])
    else:
        same = all([int(c) for c in x[0]] == [int(c) for c in serial.center_indices] for x in res)
        failed |= not same
        print("kcenters(mpi_mode=True) on %d ranks: centers" % n, [int(c) for c in res[0][0]], "ok" if same else "WRONG")

if failed:
    print("VIOLATION of C14: striped maximum / distributed k-centers fail when a rank owns no frame")
    sys.exit(1)
print("no violation")

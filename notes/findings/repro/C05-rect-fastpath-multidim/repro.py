import sys, os; sys.modules["mpi4py"] = None; sys.path.insert(0, os.getcwd())
os.environ["OMP_NUM_THREADS"] = "2"
import warnings; warnings.simplefilter("ignore")
import numpy as np
import enspara
assert enspara.__file__.startswith(os.getcwd()), enspara.__file__
from enspara import ra

def model_rows(res):
    return [np.asarray(res[i]) for i in range(len(res))]

bad = []
def check(label, fn, expected_rows=None, expected_arr=None):
    try:
        got = fn()
    except Exception as e:
        bad.append(label); print("FAIL %s: raised %s: %s" % (label, type(e).__name__, e)); return
    if expected_rows is not None:
        g = [r.tolist() for r in model_rows(got)]
        e = [np.asarray(r).tolist() for r in expected_rows]
        if g != e:   # values/shapes only; dtype is the subject of a separate finding
            bad.append(label); print("FAIL %s: got %s %s, list-of-rows model gives %s %s" % (label, g, [str(np.asarray(r).dtype) for r in model_rows(got)], e, [str(np.asarray(r).dtype) for r in expected_rows])); return
    if expected_arr is not None:
        ga = np.asarray(got); ea = np.asarray(expected_arr)
        if ga.shape != ea.shape or ga.dtype != ea.dtype or ga.tolist() != ea.tolist():
            bad.append(label); print("FAIL %s: got %r (shape %s, dtype %s), model gives %r (shape %s, dtype %s)" % (label, ga.tolist(), ga.shape, ga.dtype, ea.tolist(), ea.shape, ea.dtype)); return
    print("ok   %s" % label)

# 6 frames of 3-vectors, three rows of two frames each (flat data + lengths, equal lengths)
flat = np.arange(18.).reshape(6, 3)
L = np.array([2, 2, 2])
rows = [flat[0:2], flat[2:4], flat[4:6]]
a = ra.RaggedArray(flat.copy(), lengths=L)
if len(a) != 3:
    bad.append("len"); print("FAIL len(a) = %d, model gives 3" % len(a))
check("a[0]", lambda: a[0], expected_arr=rows[0])
check("a[-1]", lambda: a[-1], expected_arr=rows[-1])
check("a[1, 0:1]", lambda: a[1, 0:1], expected_arr=rows[1][0:1])
check("list(a)[2]", lambda: list(a)[2], expected_arr=rows[2])
check("a[[0, 2]]", lambda: a[[0, 2]], expected_rows=[rows[0], rows[2]])
# the same path is hit by 2-D slicing of an UNEQUAL multi-dim array whose result rows are equal
b = ra.RaggedArray(flat.copy(), lengths=np.array([1, 2, 3]))
brows = [flat[0:1], flat[1:3], flat[3:6]]
check("b[1:, 0:2]", lambda: b[1:, 0:2], expected_rows=[r[0:2] for r in brows[1:]])
sys.exit(1 if bad else 0)

import sys, os; sys.modules['mpi4py'] = None; sys.path.insert(0, os.getcwd())
os.environ['OMP_NUM_THREADS'] = '2'
import warnings; warnings.simplefilter('ignore')
import logging, threading
import numpy as np
import enspara
logging.disable(logging.CRITICAL)
assert enspara.__file__.startswith(os.getcwd()), enspara.__file__
from enspara import mpi
from enspara.cluster.kcenters import kcenters


# ---- a thread-based stand-in for a 2-rank MPI world -----------------------
class FakeWorld:
    def __init__(self, size):
        self.size = size
        self.barrier = threading.Barrier(size, timeout=3)
        self.slots = [None] * size
        self.tl = threading.local()

    def Barrier(self):
        self.barrier.wait()

    def _exchange(self, v):
        self.slots[self.tl.rank] = v
        self.barrier.wait()
        out = list(self.slots)
        self.barrier.wait()
        return out

    def allgather(self, v):
        return self._exchange(v)

    def allreduce(self, v, op=None):
        vals = self._exchange(v)
        return max(vals) if op is mpi.mpi4py.MAX else sum(vals)

    def bcast(self, v, root=0):
        return self._exchange(v)[root]

    def Bcast(self, buf, root=0):
        buf[...] = self._exchange(np.array(buf, copy=True))[root]


def run(size, fn):
    w = FakeWorld(size)
    old = (mpi.rank, mpi.size, mpi.comm)
    mpi.rank, mpi.size, mpi.comm = (lambda: w.tl.rank), (lambda: size), w
    res = [None] * size

    def target(r):
        w.tl.rank = r
        try:
            res[r] = ('returned', fn(r))
        except threading.BrokenBarrierError:
            res[r] = ('stuck', 'still waiting in a collective after 3 s '
                               '(the other rank never joined it)')
        except BaseException as e:       # noqa
            res[r] = ('raised', e)
            w.barrier.abort()
    ts = [threading.Thread(target=target, args=(r,)) for r in range(size)]
    [t.start() for t in ts]
    [t.join() for t in ts]
    mpi.rank, mpi.size, mpi.comm = old
    return res
# ---------------------------------------------------------------------------

SIZE = 2
#             rank0   rank1  rank0  rank1  rank0  rank1  rank0   rank1
X = np.array([[0.0], [10.0], [1.0], [11.0], [2.0], [0.5], [-6.0], [12.0]])
init = X[[0, 1]].copy()        # two distinct FRAMES of the data set: x=0 and x=10
# rank 0 holds x = 0, 1, 2, -6   (all nearest to initial center 0)
# rank 1 holds x = 10, 11, .5, 12 (nearest to both initial centers)

problems = []

# ---- (a) radius stop: one new center (x=-6) is needed, then radius = 2 <= 3
serial = kcenters(X, 'euclidean', dist_cutoff=3.0, init_centers=init)
out = run(SIZE, lambda r: kcenters(X[r::SIZE].copy(), 'euclidean', dist_cutoff=3.0,
                                   init_centers=init, mpi_mode=True))
print('serial labels              :', serial.assignments, ' n centers', len(serial.centers))
if all(s == 'returned' for s, _ in out):
    lab = np.empty(len(X), int)
    for r, (_, o) in enumerate(out):
        lab[r::SIZE] = o.assignments
        print('rank %d: len(center_indices)=%d len(centers)=%d local labels=%s'
              % (r, len(o.center_indices), len(o.centers), o.assignments))
    print('striped labels reassembled :', lab)
    if not np.array_equal(lab, serial.assignments):
        problems.append('striped run labels %s != serial labels %s: on rank 0 the new center '
                        '(x=-6, centers[2]) was given label 1, which is initial center x=10'
                        % (lab, serial.assignments))
    n_ci = [len(o.center_indices) for _, o in out]
    if len(set(n_ci)) != 1 or n_ci[0] != len(out[0][1].centers):
        problems.append('ranks disagree on the number of centers found so far: '
                        'len(center_indices) per rank = %s, len(centers) = %d'
                        % (n_ci, len(out[0][1].centers)))
else:
    problems.append('radius-stop run failed: %s' % (out,))

# ---- (b) n_clusters stop: 3 centers requested = the 2 initial + 1 new
out = run(SIZE, lambda r: kcenters(X[r::SIZE].copy(), 'euclidean', n_clusters=3,
                                   init_centers=init, mpi_mode=True))
for r, (status, o) in enumerate(out):
    print('n_clusters=3, rank %d: %s %s' % (
        r, status, ('with %d centers' % len(o.centers)) if status == 'returned' else o))
if [s for s, _ in out] != ['returned'] * SIZE:
    problems.append('n_clusters=3: ranks leave the main loop after different numbers of '
                    'iterations -> %s (a deadlock under real MPI)'
                    % [s for s, _ in out])
else:
    if any(len(o.centers) != 3 for _, o in out):
        problems.append('n_clusters=3 returned %s centers' % [len(o.centers) for _, o in out])

if problems:
    print('VIOLATION (C02):')
    for p in problems:
        print('  -', p)
    sys.exit(1)
print('ok')

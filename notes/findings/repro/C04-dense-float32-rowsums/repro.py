import sys, os; sys.modules['mpi4py']=None; sys.path.insert(0, os.getcwd())
import numpy as np, scipy.sparse as sp
from enspara.msm import builders
C = np.zeros((3,3), dtype=np.float32); C[0,0]=2**24; C[0,1:]=1; C[1]=[1,2,3]; C[2]=[5,5,7]
C = np.float32(np.hstack([C, np.ones((3,200),dtype=np.float32)])); C=np.vstack([C, np.ones((200,203),dtype=np.float32)])
_, Td, _ = builders.normalize(C, calculate_eq_probs=False)
_, Ts, _ = builders.normalize(sp.csr_matrix(C), calculate_eq_probs=False)
print(Td.dtype, Ts.dtype, abs(Td-Ts.toarray()).max(), abs(Td.sum(1)-1).max(), abs(Ts.toarray().sum(1)-1).max())
ref = C.astype(np.float64); ref = ref/ref.sum(1)[:,None]
print('dense vs exact', abs(Td-ref).max()/ref.max(), 'sparse vs exact', abs(Ts.toarray()-ref).max()/ref.max())

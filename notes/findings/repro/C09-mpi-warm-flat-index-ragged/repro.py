import sys, os; sys.modules['mpi4py'] = None; sys.path.insert(0, os.getcwd())
os.environ['OMP_NUM_THREADS'] = '2'
import warnings; warnings.filterwarnings('ignore')
import logging; logging.disable(logging.CRITICAL)
import threading, copy, types, traceback
import numpy as np
import enspara
assert enspara.__file__.startswith(os.getcwd()), enspara.__file__
import enspara.mpi as empi
from enspara.mpi.util import DummyComm
from enspara.cluster.kmedoids import kmedoids
from enspara.cluster.kcenters import kcenters

N = 2
tls = threading.local(); tls.rank = 0
class FakeComm:
    def __init__(self): self.bar = threading.Barrier(N); self.slots = [None] * N
    def allgather(self, v):
        self.slots[tls.rank] = v; self.bar.wait()
        out = [copy.deepcopy(s) for s in self.slots]; self.bar.wait(); return out
    def bcast(self, v, root=0): return self.allgather(v)[root]
    def Bcast(self, buf, root=0):
        d = self.allgather(buf)[root]
        if tls.rank != root: buf[...] = d
    def allreduce(self, v, op): return op(self.allgather(v))
    def Barrier(self): self.bar.wait()
    barrier = Barrier

def run_two_ranks(fn):
    comm = FakeComm()
    empi.comm = comm; empi.rank = lambda: tls.rank; empi.size = lambda: N
    empi.mpi4py = types.SimpleNamespace(SUM=sum, MAX=max)
    out = [None] * N
    def work(r):
        tls.rank = r
        try: out[r] = ('ok', fn(r))
        except threading.BrokenBarrierError: out[r] = ('aborted', None)
        except BaseException: out[r] = ('exc', traceback.format_exc()); comm.bar.abort()
    ths = [threading.Thread(target=work, args=(r,)) for r in range(N)]
    [t.start() for t in ths]; [t.join() for t in ths]
    empi.size = lambda: 1; empi.rank = lambda: 0; empi.comm = DummyComm
    return out

def case(lengths, form):
    """two trajectories, trajectory t lives on rank t % 2; consistent state from k-centers"""
    n = sum(lengths); offs = np.cumsum([0] + lengths)
    X = np.random.RandomState(3).normal(size=(n, 2))
    r0 = kcenters(X, 'euclidean', n_clusters=3)           # serial, global state
    owned = [np.arange(offs[t], offs[t + 1]) for t in range(2)]
    if form == 'flat':
        cci = [int(c) for c in r0.center_indices]           # [index, ...]
    else:
        cci = []
        for c in r0.center_indices:                          # [[traj, frame], ...]
            t = int(np.searchsorted(offs, c, side='right') - 1); cci.append([t, int(c - offs[t])])
    def f(r):
        g = owned[r]
        return kmedoids(X[g], 'euclidean', n_iters=2, assignments=r0.assignments[g].copy(),
                        distances=r0.distances[g].copy(), cluster_center_inds=cci,
                        X_lengths=lengths, random_state=0)
    out = run_two_ranks(f)
    tag = "lengths=%s, cluster_center_inds as %-5s %s" % (lengths, form, cci)
    if all(o[0] == 'ok' for o in out):
        tot = sum((o[1].distances ** 2).sum() for o in out) / n
        print("ok   ", tag, "-> cost %.4f (k-centers %.4f)" % (tot, np.mean(r0.distances ** 2)))
        return True
    print("CRASH", tag)
    for o in out:
        if o[0] == 'exc': print("      " + o[1].strip().splitlines()[-1][:160])
    return False

ok_a = case([5, 5], 'flat')     # equal lengths: works
ok_b = case([4, 6], 'pairs')    # unequal lengths, pair form: works
ok_c = case([4, 6], 'flat')     # unequal lengths, flat global indices: crashes
if not ok_c:
    print("VIOLATION: a warm start from a consistent (centers, labels, distances) state crashes "
          "when the centre indices are given in the documented flat form [index, ...] and the "
          "trajectories have different lengths")
sys.exit(0 if (ok_a and ok_b and ok_c) else 1)

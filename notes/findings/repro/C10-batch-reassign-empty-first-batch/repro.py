import sys, os; sys.modules['mpi4py'] = None; sys.path.insert(0, os.getcwd())
os.environ['OMP_NUM_THREADS'] = '2'
import warnings; warnings.simplefilter('ignore')
import logging; logging.disable(logging.CRITICAL)
import shutil, tempfile, traceback
import numpy as np, mdtraj as md, psutil
import enspara
assert os.path.realpath(enspara.__file__).startswith(os.path.realpath(os.getcwd())), enspara.__file__
from enspara.cluster import util


def main():
    failures = []

    # 1. the batching helper: a first trajectory exactly as long as the batch
    #    size (which batch_reassign explicitly allows: it only rejects
    #    batch_size < max(lengths)) produces an EMPTY first batch.
    b = util.compute_batches([5, 2], 5)
    if any(len(x) == 0 for x in b):
        failures.append('compute_batches([5, 2], 5) = %r contains an empty batch' % (b,))

    # 2. end to end through reassign(): two trajectories (5 and 2 frames),
    #    3 centers, frac_mem chosen so that the batch size is exactly 5 frames.
    rng = np.random.default_rng(0)
    n_atoms = 8
    top = md.Topology(); ch = top.add_chain()
    for i in range(n_atoms):
        r = top.add_residue('ALA', ch); top.add_atom('CA', md.element.carbon, r)

    def mk(n):
        return md.Trajectory(rng.normal(size=(n, n_atoms, 3)).astype(np.float32), top)

    here = os.path.dirname(os.path.abspath(__file__))
    tmp = tempfile.mkdtemp(dir=here)
    try:
        topf = os.path.join(tmp, 'top.pdb'); mk(1).save_pdb(topf)
        lengths = [5, 2]
        files = []
        for i, l in enumerate(lengths):
            f = os.path.join(tmp, 't%d.xtc' % i); mk(l).save_xtc(f); files.append(f)
        full = md.join([md.load(f, top=topf) for f in files])
        centers = mk(3)
        D = np.array([md.rmsd(full, centers, frame=j) for j in range(3)]).T

        bytes_per_frame = n_atoms * 3 * 4
        frac_mem = (5 + 0.5) * bytes_per_frame / psutil.virtual_memory().total
        bs, _ = util.determine_batch_size(n_atoms, 4, frac_mem)
        assert bs == 5, bs

        try:
            a, d = util.reassign([topf], [files], ['all'], centers, frac_mem=frac_mem)
            fa = np.concatenate([np.asarray(a[i]) for i in range(len(lengths))])
            fd = np.concatenate([np.asarray(d[i]) for i in range(len(lengths))])
            if not (np.allclose(D[np.arange(len(fa)), fa], D.min(1), atol=1e-4)
                    and np.allclose(fd, D.min(1), atol=1e-4)):
                failures.append('reassign returned wrong assignments/distances')
        except Exception as e:
            tb = traceback.extract_tb(e.__traceback__)[-1]
            failures.append('reassign(lengths=[5, 2], batch size 5) crashed: %s: %s (at %s:%s)' % (
                type(e).__name__, e, os.path.basename(tb.filename), tb.lineno))

        # control: batch size 6 (one more frame) works
        frac_ok = (6 + 0.5) * bytes_per_frame / psutil.virtual_memory().total
        a, d = util.reassign([topf], [files], ['all'], centers, frac_mem=frac_ok)
        fa = np.concatenate([np.asarray(a[i]) for i in range(len(lengths))])
        assert np.allclose(D[np.arange(len(fa)), fa], D.min(1), atol=1e-4)
        print('control (batch size 6): ok')
    finally:
        shutil.rmtree(tmp, ignore_errors=True)

    if failures:
        print('batch reassignment fails when the first trajectory exactly fills a batch:')
        for f in failures:
            print('  -', f)
        return 1
    print('no violation')
    return 0


if __name__ == '__main__':
    sys.exit(main())

import os
os.environ["OMP_NUM_THREADS"] = "2"
import sys; sys.modules["mpi4py"] = None; sys.path.insert(0, os.getcwd())
import logging; logging.disable(logging.CRITICAL)
import tempfile
import numpy as np
import scipy.sparse as sp
import enspara
assert enspara.__file__.startswith(os.getcwd()), enspara.__file__
from enspara.msm import MSM, builders, implied_timescales
from enspara.msm.transition_matrices import eigenspectrum


def prior_counts(C):
    # the builder enspara/apps/implied_timescales.py ships as
    # --symmetrization prior_counts
    return builders.normalize(C, prior_counts=1 / C.shape[0])

rng = np.random.default_rng(0)
a = rng.integers(0, 5, size=(2, 60))

m = MSM(lag_time=2, method=prior_counts)
m.fit(a)
print("tcounts_ type:", type(m.tcounts_).__name__,
      " tprobs_ type:", type(m.tprobs_).__name__)

with tempfile.TemporaryDirectory() as d:
    path = os.path.join(d, 'msm')
    m.save(path)
    m2 = MSM.load(path)

# the files do round-trip exactly ...
assert np.array_equal(np.asarray(m2.tcounts_), np.asarray(m.tcounts_))
assert np.array_equal(np.asarray(m2.tprobs_), np.asarray(m.tprobs_))
assert np.array_equal(m2.eq_probs_, m.eq_probs_)
assert m2.mapping_ == m.mapping_ and m2.config == m.config

# ... but the model's equality cannot be evaluated
try:
    same = (m2 == m)
except Exception as e:
    print("VIOLATION: MSM.load(save(m)) == m raised %s: %s"
          % (type(e).__name__, e))
    sys.exit(1)
if not same:
    print("VIOLATION: loaded model compares unequal")
    sys.exit(1)
print("ok")

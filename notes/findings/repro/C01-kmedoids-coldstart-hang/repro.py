import sys, os; sys.modules['mpi4py'] = None; sys.path.insert(0, os.getcwd())
os.environ['OMP_NUM_THREADS'] = '2'
import warnings; warnings.filterwarnings('ignore')
import signal, time, traceback
import numpy as np
import enspara
assert enspara.__file__.startswith(os.getcwd()), enspara.__file__
from enspara.cluster.kmedoids import KMedoids, kmedoids

# 2000 distinct points, 400 clusters: an ordinary "one state per 5 frames" request
rng = np.random.default_rng(0)
X = rng.normal(size=(2000, 3))
K, BUDGET = 400, 30

# the same request is answered at once when the medoids are named explicitly
t0 = time.perf_counter()
r = kmedoids(X, 'euclidean', cluster_center_inds=list(range(K)), n_iters=1, random_state=0)
print('warm start with %d named medoids, 1 sweep: %.1f s' % (K, time.perf_counter() - t0))


class Hang(Exception):
    pass


def on_alarm(signum, frame):
    where = []
    f = frame
    while f is not None:
        where.append('%s:%s:%d' % (os.path.basename(f.f_code.co_filename), f.f_code.co_name, f.f_lineno))
        f = f.f_back
    raise Hang(' <- '.join(where[:4]))


signal.signal(signal.SIGALRM, on_alarm)
signal.alarm(BUDGET)
try:
    r = KMedoids('euclidean', n_clusters=K, n_iters=1).fit(X).result_
    signal.alarm(0)
    print('cold start finished with', len(r.center_indices), 'centers')
    print('ok')
    sys.exit(0)
except Hang as h:
    p = np.exp(np.sum(np.log1p(-np.arange(K) / len(X))))
    print('VIOLATION: KMedoids(n_clusters=%d).fit(X) with %d frames produced no result in %d s;'
          % (K, len(X), BUDGET))
    print('  interrupted in', h)
    print('  the cold start redraws all %d indices WITH replacement until they happen to be '
          'pairwise distinct; P(success per draw) = %.2e, i.e. ~%.1e draws expected'
          % (K, p, 1 / p))
    sys.exit(1)

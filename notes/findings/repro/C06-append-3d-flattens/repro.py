import sys, os; sys.modules["mpi4py"] = None; sys.path.insert(0, os.getcwd())
os.environ["OMP_NUM_THREADS"] = "2"
import warnings; warnings.simplefilter("ignore")
import numpy as np; np.set_printoptions(legacy="1.25")
import enspara
assert enspara.__file__.startswith(os.getcwd()), "wrong enspara: %s" % enspara.__file__
from enspara.ra.ra import RaggedArray
problems = []
def run(label, f):
    try:
        return f()
    except Exception as e:
        problems.append("%s raised %s: %s" % (label, type(e).__name__, e))
        return None
def finish():
    for p in problems: print("VIOLATION:", p)
    if not problems: print("no violation observed")
    sys.exit(1 if problems else 0)

# C06: append() on a ragged array whose rows carry a trailing dimension
# (n_i x 3 blocks; RaggedArray.shape and ra.load support these) flattens the
# data, raises, and leaves the object half-updated.
xyz = np.arange(18).reshape(6, 3)
a = RaggedArray(xyz, lengths=[2, 4])
assert a.shape == (2, None, 3)
run("a.append([ones((2, 3))])", lambda: a.append([np.ones((2, 3), dtype=int)]))
if a._data.shape not in ((8, 3),):
    problems.append("flat data shape is %s after the append (model: (8, 3))" % (a._data.shape,))
if list(a.lengths) != [2, 4, 2] or len(a) != 3:
    problems.append("lengths %s, len(a) %d (model: [2, 4, 2], 3)" % (list(a.lengths), len(a)))
if sum(a.lengths) != len(a._data):
    problems.append("views incoherent after the failed append: sum(lengths)=%d, len(flat data)=%d, rows=%d"
                    % (sum(a.lengths), len(a._data), len(a)))
finish()

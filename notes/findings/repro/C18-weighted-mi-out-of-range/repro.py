import sys, os; sys.modules["mpi4py"] = None; sys.path.insert(0, os.getcwd())
os.environ["OMP_NUM_THREADS"] = "2"
import warnings
import numpy as np
import enspara
assert os.path.abspath(enspara.__file__).startswith(os.getcwd()), enspara.__file__
from enspara.info_theory import mutual_info as mi
warnings.simplefilter("ignore")

# two identical features that only visit states 0 and 2, declared to have 2 states each
x = np.array([0, 2] * 10)
X = np.stack([x, x], 1)
w = np.full(len(x), 1.0 / len(x))
true_mi = np.log(2)
try:
    M = mi.weighted_mi(X, w, n_feature_states=[2, 2], normalize=False)
except Exception as e:
    print("rejected (fine):", type(e).__name__, e); sys.exit(0)
print("weighted_mi with id 2 outside declared range [0,2):\n", M)
print("count-based path on the same call:", end=" ")
try:
    mi.mi_matrix([X], [X], [2, 2], [2, 2], normalize=False); print("accepted")
except AssertionError as e:
    print("AssertionError:", e)
print("VIOLATION: out-of-range state id neither rejected nor counted: result %.4f, "
      "MI of the data is %.4f (the id-2 frames are dropped from the joint but kept in the marginals)"
      % (M[0, 1], true_mi))
sys.exit(1)

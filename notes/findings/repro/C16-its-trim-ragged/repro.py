import os
os.environ["OMP_NUM_THREADS"] = "2"
import sys; sys.modules["mpi4py"] = None; sys.path.insert(0, os.getcwd())
import logging; logging.disable(logging.CRITICAL)
import tempfile
import numpy as np
import scipy.sparse as sp
import enspara
assert enspara.__file__.startswith(os.getcwd()), enspara.__file__
from enspara.msm import MSM, builders, implied_timescales
from enspara.msm.transition_matrices import eigenspectrum


# State 2 is visited once, in the second frame.  At lag 1 it has a transition
# in (0->2) and out (2->1), so all three states are ergodically connected; at
# lag 2 nothing can precede it, it is trimmed and two states remain.
a = np.array([[0, 2] + ([1] * 8 + [0] * 8) * 4])
lags = [1, 2]

ref = []
for lag in lags:
    m = MSM(lag_time=lag, method=builders.transpose, trim=True)
    m.fit(a)
    ev = np.sort(np.linalg.eigvals(m.tprobs_.toarray()).real)[::-1]
    with np.errstate(all='ignore'):
        ref.append(-lag / np.log(ev[1:]))
    print("lag", lag, "states kept", m.n_states_, "timescales", ref[-1])

try:
    its = implied_timescales(a, lags, builders.transpose, n_times=2,
                             trim=True)
except Exception as e:
    print("VIOLATION: implied_timescales(trim=True) raised %s: %s"
          % (type(e).__name__, e))
    sys.exit(1)
assert its.shape == (2, 2), its.shape
print("ok", its)

import sys, os; sys.modules['mpi4py'] = None; sys.path.insert(0, os.getcwd())
os.environ['OMP_NUM_THREADS'] = '2'
import numpy as np

import enspara
assert enspara.__file__.startswith(os.getcwd()), enspara.__file__
from enspara.msm import builders

# the count matrix used by the project's own test_mle_types; integer dtype is
# what assigns_to_counts produces
C = np.array([[0, 2, 8],
              [4, 2, 4],
              [7, 3, 0]])

bad = 0
for dtype in (np.int64, np.int32, np.float32, np.float64):
    M = C.astype(dtype)
    T_py, pi_py = builders._prinz_mle_py(M)
    try:
        T_c, pi_c = builders._prinz_mle(M)
        agree = np.allclose(T_py, T_c, atol=1e-8) and np.allclose(pi_py, pi_c, atol=1e-8)
        print('%-8s python ok, compiled ok, agree=%s' % (np.dtype(dtype).name, agree))
        bad += not agree
    except Exception as e:
        bad += 1
        print('%-8s python ok, compiled raised %s: %s' % (np.dtype(dtype).name, type(e).__name__, e))

if bad:
    print('\nVIOLATION: the compiled estimator builders._prinz_mle raises on integer '
          '(and float32) count matrices on which the pure-Python estimator returns a '
          'model; the two implementations do not agree on these admissible inputs.')
    sys.exit(1)
print('no violation')

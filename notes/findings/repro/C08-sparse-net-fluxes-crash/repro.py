import sys, os; sys.modules['mpi4py'] = None; sys.path.insert(0, os.getcwd())
os.environ['OMP_NUM_THREADS'] = '2'
import numpy as np
import scipy.sparse
import enspara
assert os.path.abspath(enspara.__file__).startswith(os.getcwd()), enspara.__file__
from enspara import tpt

# 3-state reversible ergodic chain (the one used in enspara/test/test_tpt_fluxes.py)
T = np.array([[0.5, 0.5, 0.0],
              [0.5, 0.0, 0.5],
              [0.0, 0.5, 0.5]])
pi = np.full(3, 1 / 3.)

# what the statement says: positive part of (f - f^T)
f = tpt.reactive_fluxes(T, [0], [2], populations=pi)
expected = np.maximum(f - f.T, 0)
dense = tpt.net_fluxes(T, [0], [2], populations=pi)
assert np.allclose(dense, expected)
print("dense net_fluxes OK:\n", dense)

bad = []
for fmt in (scipy.sparse.csr_matrix, scipy.sparse.csc_matrix,
            scipy.sparse.lil_matrix, scipy.sparse.coo_matrix,
            scipy.sparse.dok_matrix, scipy.sparse.dia_matrix,
            scipy.sparse.csr_array):
    try:
        out = tpt.net_fluxes(fmt(T), [0], [2], populations=pi)
        out = np.asarray(out.todense(), dtype=float)
        if not np.allclose(out, expected):
            bad.append((fmt.__name__, 'wrong value:\n%s' % out))
    except Exception as e:
        bad.append((fmt.__name__, '%s: %s' % (type(e).__name__, e)))

for name, what in bad:
    print("VIOLATION  net_fluxes(%s(T), [0], [2], populations=pi) -> %s" % (name, what))
if bad:
    print("expected (same as dense):\n", expected)
    sys.exit(1)
print("no violation")

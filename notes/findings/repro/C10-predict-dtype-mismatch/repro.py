import sys, os; sys.modules['mpi4py'] = None; sys.path.insert(0, os.getcwd())
os.environ['OMP_NUM_THREADS'] = '2'
import warnings; warnings.simplefilter('ignore')
import logging; logging.disable(logging.CRITICAL)
import numpy as np
import enspara
assert os.path.realpath(enspara.__file__).startswith(os.path.realpath(os.getcwd())), enspara.__file__
from enspara.cluster import KCenters
from enspara.cluster.util import assign_to_nearest_center
from enspara.geometry.libdist import euclidean

rng = np.random.default_rng(0)
X = rng.normal(size=(30, 3))                 # float64 training data
est = KCenters(metric='euclidean', n_clusters=5).fit(X)
C = np.array(est.centers_)

def reference(Y):
    Y = np.asarray(Y, dtype=float)
    D = np.sqrt(((Y[:, None, :] - C[None, :, :]) ** 2).sum(-1))
    return D

failures = []
new = rng.normal(size=(7, 3))
cases = {
    'float64 ndarray (control)': new,
    'float32 ndarray': new.astype(np.float32),
    'int64 ndarray': np.round(new * 3).astype(np.int64),
    'nested list (docstring: array-like)': new.tolist(),
}
for name, Y in cases.items():
    D = reference(Y)
    try:
        r = est.predict(Y)
    except Exception as e:
        failures.append('predict(%s): %s: %s' % (name, type(e).__name__, e))
        continue
    ok = (np.allclose(D[np.arange(len(D)), r.assignments], D.min(1), atol=1e-6)
          and np.allclose(r.distances, D.min(1), atol=1e-6))
    print('predict(%s): %s' % (name, 'ok' if ok else 'WRONG'))
    if not ok:
        failures.append('predict(%s): wrong result' % name)

# same thing directly
try:
    assign_to_nearest_center(new.astype(np.float32), C, euclidean)
except Exception as e:
    failures.append('assign_to_nearest_center(float32 frames, float64 centers, euclidean): %s: %s'
                    % (type(e).__name__, e))

if failures:
    print('assignment crashes when frames and centers differ in dtype/container:')
    for f in failures:
        print('  -', f)
    sys.exit(1)
print('no violation')

import sys, os; sys.modules['mpi4py'] = None; sys.path.insert(0, os.getcwd())
os.environ['OMP_NUM_THREADS'] = '2'
import numpy as np
import enspara
assert os.path.abspath(enspara.__file__).startswith(os.getcwd()), enspara.__file__
from enspara.tpt import committors, mfpts

# irreducible row-stochastic chain given as a plain nested list (a dense
# "array-like", which is what the committors docstring promises to accept)
T = [[0.8, 0.2, 0.0, 0.0],
     [0.1, 0.6, 0.3, 0.0],
     [0.0, 0.2, 0.6, 0.2],
     [0.0, 0.0, 0.3, 0.7]]
bad = 0
for name, fn, ref in [
        ('committors(list, [0], [3])', lambda X: committors(X, [0], [3]),
         committors(np.array(T), [0], [3])),
        ('mfpts(list, sinks=[3])', lambda X: mfpts(X, sinks=[3]),
         mfpts(np.array(T), sinks=[3])),
        ('mfpts(list)', lambda X: mfpts(X), mfpts(np.array(T)))]:
    try:
        out = fn(T)
        ok = np.allclose(out, ref)
        print(name, '->', 'ok' if ok else 'WRONG VALUE')
        bad += not ok
    except Exception as e:
        print(name, '-> internal crash:', repr(e))
        bad += 1
if bad:
    print('FAIL: array-like (nested list) transition matrix crashes with '
          "AttributeError: 'list' object has no attribute 'shape' instead of "
          'returning the committors / mfpts of the ndarray with the same values')
    sys.exit(1)
print('no violation')

import sys, os; sys.modules['mpi4py'] = None; sys.path.insert(0, os.getcwd())
os.environ['OMP_NUM_THREADS'] = '2'
import traceback
import numpy as np
import mdtraj as md
import enspara
assert os.path.realpath(enspara.__file__).startswith(os.path.realpath(os.getcwd())), enspara.__file__
from enspara.geometry import rotamer

# A two-residue backbone (N CA C | N CA C): exactly one psi angle, dihedral(N0, CA0, C0, N1).
top = md.Topology()
ch = top.add_chain()
for r in range(2):
    res = top.add_residue('ALA', ch)
    for nm, el in (('N', 'N'), ('CA', 'C'), ('C', 'C')):
        top.add_atom(nm, md.element.get_by_symbol(el), res)


def coords(psi_deg):
    t = np.deg2rad(psi_deg)
    ca = np.array([0, 0, 0.]); c = np.array([0.15, 0, 0]); n0 = np.array([-0.05, 0.14, 0])
    n1 = c + np.array([0.05, 0.13 * np.cos(t), 0.13 * np.sin(t)])
    ca1 = n1 + np.array([0.14, 0.02, 0.03]); c1 = ca1 + np.array([0.1, 0.1, 0.05])
    return np.array([n0, ca, c, n1, ca1, c1])


def psi_of(xyz):
    return rotamer.dihedral_angles(md.Trajectory(xyz, top), 'psi')[0][:, 0]


# find a conformation whose psi (as computed by mdtraj, float32) is the float32 number just below 100
target = np.nextafter(np.float32(100), np.float32(0))       # 99.99999237...
cands = 100 - np.linspace(0, 2e-4, 4001)
xyz = np.array([coords(p) for p in cands])
hits = np.where(psi_of(xyz) == target)[0]
assert len(hits), "could not build a psi of %r" % target
near100 = xyz[hits[0]]

bad = 0
for buffer_width, psis in ((15, ['x', 150.0, 200.0]), (0, [150.0, 'x']), (0, [150.0, 'x', 150.0])):
    frames = np.array([near100 if p == 'x' else coords(p) for p in psis])
    trj = md.Trajectory(frames, top)
    psi = psi_of(frames)
    # admissibility: angles in [0, 360), none equal to a gate of the psi boundary set
    gates = {(100 + h + s * buffer_width) % 360 for h in (0, 160) for s in (-1, 0, 1)}
    assert np.all((psi >= 0) & (psi < 360)) and not gates & set(map(float, psi)), psi
    print("buffer=%d psi angles (deg, as computed by mdtraj) = %s" % (buffer_width, [repr(float(p)) for p in psi]))
    try:
        states, _, n_states = rotamer.psi_rotamers(trj, buffer_width=buffer_width)
    except Exception:
        traceback.print_exc()
        print("  -> CRASH inside psi_rotamers; expected states (shifted basins [100,260)->0, else 1)")
        bad += 1
        continue
    states = states[:, 0]
    expected = [0 if 100 <= p < 260 else 1 for p in psi]    # sequences chosen so that hysteresis plays no role
    ok = states.tolist() == expected
    print("  -> states %s, n_states %s, expected %s   %s"
          % (states.tolist(), n_states.tolist(), expected, "ok" if ok else "WRONG (invalid basin index)"))
    bad += not ok

if bad:
    print("VIOLATION: a psi angle of 99.99999 deg (in [0,360), not a gate) is shifted to exactly "
          "360.0 in float32 and assigned the non-existent basin -1 / 2, or crashes get_gates.")
    sys.exit(1)
print("no violation")

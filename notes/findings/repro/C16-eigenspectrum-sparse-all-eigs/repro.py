import os
os.environ["OMP_NUM_THREADS"] = "2"
import sys; sys.modules["mpi4py"] = None; sys.path.insert(0, os.getcwd())
import logging; logging.disable(logging.CRITICAL)
import tempfile
import numpy as np
import scipy.sparse as sp
import enspara
assert enspara.__file__.startswith(os.getcwd()), enspara.__file__
from enspara.msm import MSM, builders, implied_timescales
from enspara.msm.transition_matrices import eigenspectrum


def ring(n):
    # lazy nearest-neighbour walk on a ring: ergodic, reversible, sparse
    T = sp.diags([np.full(n, .5), np.full(n - 1, .25), np.full(n - 1, .25)],
                 [0, 1, -1], format='lil')
    T[0, n - 1] = .25
    T[n - 1, 0] = .25
    return T.tocsr()

bad = 0
for n in (999, 1000):
    T = ring(n)
    ref = np.sort(np.linalg.eigvals(T.toarray()).real)[::-1]
    try:
        vals, vecs = eigenspectrum(T)   # n_eigs=None: "all are computed"
    except Exception as e:
        print("VIOLATION: eigenspectrum(T) for an ergodic sparse %dx%d "
              "matrix raised %s: %s" % (n, n, type(e).__name__, e))
        bad = 1
        continue
    assert np.allclose(vals, ref, atol=1e-9) and abs(vals[0] - 1) < 1e-9
    assert np.allclose(vecs[:, 0], 1 / n, atol=1e-9)
    print("n=%d fine (sparse input, dense solver)" % n)

# the same request through implied_timescales: all n-1 timescales of a
# 1000-state model -> the TypeError is even masked by a NameError, because
# timescales.py never imports ArpackNoConvergence.
n = 1000
rng = np.random.default_rng(0)
traj = (np.cumsum(rng.choice([-1, 0, 1, 1, 2], size=300000)) % n)
traj = traj.reshape(1, -1)
assert len(np.unique(traj)) == n
try:
    its = implied_timescales(traj, [1], builders.transpose, n_times=n - 1)
    assert its.shape == (1, n - 1)
except Exception as e:
    print("VIOLATION: implied_timescales(..., n_times=n_states-1) on %d "
          "states raised %s: %s" % (n, type(e).__name__, e))
    bad = 1
sys.exit(bad)

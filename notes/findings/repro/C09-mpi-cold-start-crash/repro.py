import sys, os; sys.modules['mpi4py'] = None; sys.path.insert(0, os.getcwd())
os.environ['OMP_NUM_THREADS'] = '2'
import warnings; warnings.filterwarnings('ignore')
import logging; logging.disable(logging.CRITICAL)
import threading, copy, types, traceback
import numpy as np
import enspara
assert enspara.__file__.startswith(os.getcwd()), enspara.__file__
import enspara.mpi as empi
from enspara.cluster.kmedoids import kmedoids

# ---- a thread-based fake communicator: 2 "ranks" -------------------------
N = 2
tls = threading.local(); tls.rank = 0
class FakeComm:
    def __init__(self): self.bar = threading.Barrier(N); self.slots = [None] * N
    def allgather(self, v):
        self.slots[tls.rank] = v; self.bar.wait()
        out = [copy.deepcopy(s) for s in self.slots]; self.bar.wait(); return out
    def bcast(self, v, root=0): return self.allgather(v)[root]
    def Bcast(self, buf, root=0):
        d = self.allgather(buf)[root]
        if tls.rank != root: buf[...] = d
    def allreduce(self, v, op): return op(self.allgather(v))
    def Barrier(self): self.bar.wait()
    barrier = Barrier
comm = FakeComm()
empi.comm = comm; empi.rank = lambda: tls.rank; empi.size = lambda: N
empi.mpi4py = types.SimpleNamespace(SUM=sum, MAX=max)

# ---- data: 20 distinct 2-d points striped over the two ranks --------------
X = np.random.RandomState(0).normal(size=(20, 2))
parts = [X[0::2].copy(), X[1::2].copy()]

out = [None] * N
def work(r):
    tls.rank = r
    try:
        res = kmedoids(parts[r], 'euclidean', n_clusters=3, n_iters=2, random_state=0)
        out[r] = ('ok', res)
    except threading.BrokenBarrierError:
        out[r] = ('aborted', None)
    except BaseException as e:
        out[r] = ('exc', traceback.format_exc()); comm.bar.abort()
ths = [threading.Thread(target=work, args=(r,)) for r in range(N)]
[t.start() for t in ths]; [t.join() for t in ths]

bad = False
for r, o in enumerate(out):
    if o[0] == 'exc':
        bad = True
        print("rank %d: cold-start kmedoids(X_local, 'euclidean', n_clusters=3, n_iters=2, random_state=0) raised:" % r)
        print(o[1])
    else:
        print("rank %d: %s" % (r, o[0]))
# the single-rank call with the same arguments works:
empi.size = lambda: 1; empi.rank = lambda: 0
from enspara.mpi.util import DummyComm; empi.comm = DummyComm
r1 = kmedoids(X, 'euclidean', n_clusters=3, n_iters=2, random_state=0)
print("single rank, same call: ok, centers", list(r1.center_indices))
if bad:
    print("VIOLATION: the same cold start that works on one rank crashes on two ranks "
          "(ValueError from np.arange(X); after that, .append on None)")
sys.exit(1 if bad else 0)

import sys, os; sys.modules['mpi4py'] = None; sys.path.insert(0, os.getcwd())
os.environ['OMP_NUM_THREADS'] = '2'
import numpy as np
import enspara
assert os.path.abspath(enspara.__file__).startswith(os.getcwd()), enspara.__file__
from enspara import tpt

# 4-state reversible chain 0 - 1 ~ 2 - 3 with a kinetic bottleneck between 1 and 2.
# Built from a symmetric count matrix, so detailed balance holds exactly and
# pi = row sums / total.  Ergodic (irreducible, aperiodic: self loops).
def chain(eps):
    C = np.array([[1, .5, 0, 0],
                  [.5, 1, eps, 0],
                  [0, eps, 1, .5],
                  [0, 0, .5, 1]])
    return C / C.sum(1)[:, None], C.sum(1) / C.sum()

worst = 0.0
print("%8s %14s %14s %12s %12s   reactive_populations" % ("eps", "out of source", "into sink", "rel.diff", "imbal.st.2"))
for eps in (1e-6, 1e-10, 1e-12, 1e-14, 1e-16, 1e-17):
    T, pi = chain(eps)
    assert np.allclose(pi @ T, pi, rtol=1e-14, atol=0) and np.allclose(pi[:, None] * T, (pi[:, None] * T).T, rtol=1e-14, atol=0)
    nf = tpt.net_fluxes(T, [0], [3], populations=pi)
    rp = tpt.reactive_populations(T, [0], [3], populations=pi)
    out, inn = nf[0].sum(), nf[:, 3].sum()
    imb2 = (nf[:, 2].sum() - nf[2].sum()) / out      # intermediate state 2: in - out
    rel = (inn - out) / out
    print("%8g %14.6e %14.6e %12.2e %12.2e   %s" % (eps, out, inn, rel, imb2, rp))
    if eps <= 1e-12:
        worst = max(worst, abs(rel), abs(imb2), abs(rp[1] - 0.5))

# By symmetry of the chain the exact answer is: out == in == flux through every
# edge of the path, and reactive populations exactly [0, .5, .5, 0].
if worst > 1e-6:
    print("VIOLATION: flux is not conserved (relative error up to %.2g) and reactive "
          "populations are off, although the inputs are exact" % worst)
    sys.exit(1)
print("no violation")

import sys, os; sys.modules['mpi4py'] = None; sys.path.insert(0, os.getcwd())
os.environ['OMP_NUM_THREADS'] = '2'
import warnings, logging
warnings.simplefilter('ignore'); logging.disable(logging.CRITICAL)
import numpy as np
import enspara
assert enspara.__file__.startswith(os.getcwd()), enspara.__file__
from enspara.info_theory.mutual_info import weighted_mi

features = np.array([[0, 1], [1, 0], [1, 1], [0, 0]])

# reference: the same distribution given as floats, and unnormalised integer
# weights (which the routine renormalises itself) both work
ref = weighted_mi(features, np.array([0., 1., 0., 0.]))
ok_int = weighted_mi(features, np.array([2, 0, 1, 1]))
assert np.allclose(ok_int, weighted_mi(features, np.array([.5, 0, .25, .25])))

failures = []
for w in (np.array([0, 1, 0, 0]), [0, 1, 0, 0], np.array([False, True, False, False])):
    try:
        out = weighted_mi(features, w)
        if not np.array_equal(out, ref):
            failures.append("weights=%r: value %r differs from float-weights "
                            "result %r" % (w, out, ref))
    except Exception as e:
        failures.append("weights=%r (a valid probability distribution, sum == 1): "
                        "%s: %s" % (w, type(e).__name__, e))

if failures:
    print("C19 VIOLATED: masked ufunc writes into an out= buffer of the wrong dtype")
    for f in failures:
        print(" -", f)
    sys.exit(1)
print("no violation observed")

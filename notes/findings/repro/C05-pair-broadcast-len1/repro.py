import sys, os; sys.modules["mpi4py"] = None; sys.path.insert(0, os.getcwd())
os.environ["OMP_NUM_THREADS"] = "2"
import warnings; warnings.simplefilter("ignore")
import numpy as np
import enspara
assert enspara.__file__.startswith(os.getcwd()), enspara.__file__
from enspara import ra

def model_rows(res):
    return [np.asarray(res[i]) for i in range(len(res))]

bad = []
def check(label, fn, expected_rows=None, expected_arr=None):
    try:
        got = fn()
    except Exception as e:
        bad.append(label); print("FAIL %s: raised %s: %s" % (label, type(e).__name__, e)); return
    if expected_rows is not None:
        g = [r.tolist() for r in model_rows(got)]
        e = [np.asarray(r).tolist() for r in expected_rows]
        if g != e or [np.asarray(r).dtype for r in model_rows(got)] != [np.asarray(r).dtype for r in expected_rows]:
            bad.append(label); print("FAIL %s: got %s %s, list-of-rows model gives %s %s" % (label, g, [str(np.asarray(r).dtype) for r in model_rows(got)], e, [str(np.asarray(r).dtype) for r in expected_rows])); return
    if expected_arr is not None:
        ga = np.asarray(got); ea = np.asarray(expected_arr)
        if ga.shape != ea.shape or ga.dtype != ea.dtype or ga.tolist() != ea.tolist():
            bad.append(label); print("FAIL %s: got %r (shape %s, dtype %s), model gives %r (shape %s, dtype %s)" % (label, ga.tolist(), ga.shape, ga.dtype, ea.tolist(), ea.shape, ea.dtype)); return
    print("ok   %s" % label)

rows = [np.array([1, 2, 3]), np.array([4, 5, 6, 7]), np.array([8, 9])]
a = ra.RaggedArray([r.copy() for r in rows])
def model(ii, jj):
    ii, jj = np.broadcast_arrays(ii, jj)
    return np.array([rows[i][j] for i, j in zip(ii, jj)])
check("a[[0, 1], 1]      (scalar column, works)", lambda: a[[0, 1], 1], expected_arr=model([0, 1], 1))
check("a[[1], [0, 1]]    (1-element row list, works)", lambda: a[[1], [0, 1]], expected_arr=model([1], [0, 1]))
check("a[[0, 1], [1]]    (1-element column list)", lambda: a[[0, 1], [1]], expected_arr=model([0, 1], [1]))
check("a[[0, 1], np.array([1])]", lambda: a[[0, 1], np.array([1])], expected_arr=model([0, 1], [1]))
check("a[[0, 1], [-1]]", lambda: a[[0, 1], [-1]], expected_arr=model([0, 1], [-1]))
sys.exit(1 if bad else 0)

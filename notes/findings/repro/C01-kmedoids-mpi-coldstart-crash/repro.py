import sys, os; sys.modules['mpi4py'] = None; sys.path.insert(0, os.getcwd())
os.environ['OMP_NUM_THREADS'] = '2'
import warnings; warnings.filterwarnings('ignore')
import threading, operator, copy, functools, traceback
import numpy as np
import enspara
assert enspara.__file__.startswith(os.getcwd()), enspara.__file__
import enspara.mpi as empi
from enspara.cluster.kcenters import kcenters
from enspara.cluster.kmedoids import kmedoids


# ---- a thread-based stand-in for an MPI communicator (there is no MPI here) ----
class FakeComm:
    def __init__(self, n):
        self.n, self.bar, self.slots = n, threading.Barrier(n, timeout=60), [None] * n
        self.tl = threading.local()
    def Get_rank(self): return self.tl.rank
    def Get_size(self): return self.n
    def _gather(self, v, after=None):
        self.slots[self.tl.rank] = v
        self.bar.wait()
        res = list(self.slots)
        out = after(res) if after else res
        self.bar.wait()
        return out
    def allgather(self, v): return [copy.deepcopy(x) for x in self._gather(v)]
    def bcast(self, v, root=0): return self._gather(v, lambda r: copy.deepcopy(r[root]))
    def Bcast(self, buf, root=0):
        def after(r):
            if self.tl.rank != root: buf[...] = r[root]
        self._gather(buf, after)
    def allreduce(self, v, op): return functools.reduce(op, self.allgather(v))
    def Barrier(self): self.bar.wait()
    barrier = Barrier


class fake_mpi4py:
    SUM = staticmethod(operator.add)
    MAX = staticmethod(max)


def run_ranks(n, fn):
    comm = FakeComm(n)
    old = (empi.comm, empi.rank, empi.size, empi.mpi4py)
    empi.comm, empi.rank, empi.size, empi.mpi4py = comm, comm.Get_rank, comm.Get_size, fake_mpi4py
    out = [None] * n
    def worker(r):
        comm.tl.rank = r
        try:
            out[r] = fn(r)
        except BaseException as e:
            e.tb = traceback.format_exc()
            out[r] = e
            comm.bar.abort()
    ts = [threading.Thread(target=worker, args=(r,)) for r in range(n)]
    [t.start() for t in ts]; [t.join() for t in ts]
    empi.comm, empi.rank, empi.size, empi.mpi4py = old
    return out
# --------------------------------------------------------------------------------


rng = np.random.default_rng(0)
lengths = [5, 6, 7, 4]                                 # four trajectories, two ranks
trjs = [rng.normal(size=(l, 3)) for l in lengths]
chunks = [np.concatenate(trjs[r::2]) for r in range(2)]  # rank r owns trajectories r, r+2

bad = 0

# sanity: the harness works - MPI k-centers (cold) agrees on both ranks
res = run_ranks(2, lambda r: kcenters(chunks[r], 'euclidean', n_clusters=3, mpi_mode=True))
assert not any(isinstance(x, BaseException) for x in res), res
assert res[0].center_indices == res[1].center_indices
print('2-rank kcenters (cold) ok:', [tuple(map(int, c)) for c in res[0].center_indices])

# 1. cold start of k-medoids on 2 ranks (docstring: "MPI mode can start from scratch")
res = run_ranks(2, lambda r: kmedoids(chunks[r], 'euclidean', n_clusters=3, n_iters=1, random_state=0))
for r, x in enumerate(res):
    if isinstance(x, BaseException) and 'BrokenBarrier' not in type(x).__name__:
        bad += 1
        print('VIOLATION: 2-rank cold-start kmedoids(n_clusters=3), rank %d raised %s: %s'
              % (r, type(x).__name__, str(x)[:90]))
        print('   ', ' | '.join(l.strip() for l in x.tb.strip().splitlines()[-3:-1]))
        break
else:
    print('cold start ok')

# 2. warm start with flat global center indices (documented form "[index, ...]")
Xg = np.concatenate(trjs)
base = kcenters(Xg, 'euclidean', n_clusters=3)
la = np.split(base.assignments, np.cumsum(lengths)[:-1])
ld = np.split(base.distances, np.cumsum(lengths)[:-1])
flat = [int(i) for i in base.center_indices]
res = run_ranks(2, lambda r: kmedoids(
    chunks[r], 'euclidean', n_iters=1, random_state=0,
    assignments=np.concatenate(la[r::2]), distances=np.concatenate(ld[r::2]),
    cluster_center_inds=flat, X_lengths=lengths))
for r, x in enumerate(res):
    if isinstance(x, BaseException) and 'BrokenBarrier' not in type(x).__name__:
        bad += 1
        print('VIOLATION: 2-rank warm-start kmedoids(cluster_center_inds=%s, X_lengths=%s), '
              'rank %d raised %s: %s' % (flat, lengths, r, type(x).__name__, str(x)[:90]))
        print('   ', ' | '.join(l.strip() for l in x.tb.strip().splitlines()[-3:-1]))
        break
else:
    print('warm start (flat indices) ok')

if bad:
    sys.exit(1)
print('ok')

import sys, os; sys.modules['mpi4py'] = None; sys.path.insert(0, os.getcwd())
os.environ['OMP_NUM_THREADS'] = '2'
import warnings; warnings.filterwarnings('ignore')
import logging; logging.disable(logging.CRITICAL)
import signal, time, math
import numpy as np
import enspara
assert enspara.__file__.startswith(os.getcwd()), enspara.__file__
from enspara.cluster.kmedoids import kmedoids
from enspara.cluster.hybrid import hybrid

class Timeout(Exception): pass
def on_alarm(*a): raise Timeout()
signal.signal(signal.SIGALRM, on_alarm)

def p_unique(n, k):   # chance that k draws with replacement from n are all different
    return math.exp(sum(math.log1p(-i / n) for i in range(k)))

bad = 0
LIMIT = 20
for n, k in [(1000, 250), (40, 40)]:
    X = np.random.RandomState(0).normal(size=(n, 2))          # n distinct points
    t0 = time.perf_counter()
    rh = hybrid(X, 'euclidean', n_clusters=k, n_iters=1, random_state=0)
    print("n=%d k=%d: k-hybrid returns in %.2f s, %d centres" % (n, k, time.perf_counter() - t0, len(rh.center_indices)))
    signal.alarm(LIMIT); t0 = time.perf_counter()
    try:
        r = kmedoids(X, 'euclidean', n_clusters=k, n_iters=1, random_state=0)
        signal.alarm(0)
        print("n=%d k=%d: kmedoids returned in %.2f s" % (n, k, time.perf_counter() - t0))
    except Timeout:
        bad += 1
        print("VIOLATION: kmedoids(X, 'euclidean', n_clusters=%d, n_iters=1, random_state=0) on %d distinct points "
              "did not return within %d s; it is rejection-sampling k indices WITH replacement until all are "
              "different: success chance per try %.1e -> about %.1e tries expected"
              % (k, n, LIMIT, p_unique(n, k), 1 / p_unique(n, k)))
sys.exit(1 if bad else 0)

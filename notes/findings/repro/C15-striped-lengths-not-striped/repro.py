import sys, os; sys.modules['mpi4py'] = None; sys.path.insert(0, os.getcwd())
os.environ['OMP_NUM_THREADS'] = '2'
import warnings; warnings.simplefilter('ignore')
import copy, tempfile, threading, traceback
import numpy as np
import mdtraj as md
import enspara
from enspara import mpi
assert enspara.__file__.startswith(os.getcwd()), enspara.__file__


class Ops:
    SUM = 'SUM'


class FakeComm:
    """Minimal thread-based stand-in for an MPI communicator."""
    def __init__(self, n):
        self.n = n; self.tls = threading.local()
        self.bar = threading.Barrier(n); self.slots = [None] * n
    def rank(self): return self.tls.rank
    def size(self): return self.n
    def _exchange(self, v):
        self.slots[self.tls.rank] = copy.deepcopy(v)
        self.bar.wait(timeout=120); out = list(self.slots); self.bar.wait(timeout=120)
        return out
    def bcast(self, v, root=0): return copy.deepcopy(self._exchange(v)[root])
    def allreduce(self, v, op=Ops.SUM): return sum(self._exchange(v))
    def Barrier(self): self.bar.wait()


def run_ranks(n, fn):
    comm = FakeComm(n)
    mpi.rank, mpi.size, mpi.comm, mpi.mpi4py = comm.rank, comm.size, comm, Ops
    results, errors = [None] * n, [None] * n
    def work(r):
        comm.tls.rank = r
        try:
            results[r] = fn()
        except BaseException as e:
            errors[r] = e
            comm.bar.abort()
    ths = [threading.Thread(target=work, args=(r,)) for r in range(n)]
    [t.start() for t in ths]; [t.join(300) for t in ths]
    return results, errors


def make_trj(n_frames, n_atoms, seed):
    top = md.Topology(); ch = top.add_chain()
    for i in range(n_atoms):
        top.add_atom('CA', md.element.carbon, top.add_residue('ALA', ch))
    xyz = np.round(np.random.default_rng(seed).random((n_frames, n_atoms, 3)) * 5, 2)
    return md.Trajectory(xyz.astype(np.float32), top)


d = tempfile.mkdtemp()
true_lengths = [3, 1, 5]
files = []
for i, n in enumerate(true_lengths):
    f = os.path.join(d, 't%d.h5' % i); make_trj(n, 4, i).save(f); files.append(f)
ref = [md.load(f) for f in files]

bad = []
for size in (1, 2, 3):
    for give_lengths in (False, True):
        kw = {'lengths': list(true_lengths)} if give_lengths else {}
        res, err = run_ranks(size, lambda: mpi.io.load_trajectory_as_striped(
            files, processes=2, **kw))
        for r in range(size):
            if err[r] is not None and not isinstance(err[r], threading.BrokenBarrierError):
                bad.append("ranks=%d lengths given=%s rank=%d raised %r"
                           % (size, give_lengths, r, err[r]))
            elif err[r] is None:
                gl, xyz = res[r]
                exp = np.concatenate([t.xyz for t in ref[r::size]])
                if list(gl) != true_lengths or not np.array_equal(xyz, exp):
                    bad.append("ranks=%d lengths given=%s rank=%d wrong data"
                               % (size, give_lengths, r))

if bad:
    print("C15 VIOLATED: load_trajectory_as_striped(files, lengths=<correct lengths>) "
          "works on 1 rank but fails on >= 2 ranks")
    for b in bad:
        print("  -", b)
    sys.exit(1)
print("ok")

import sys, os; sys.modules["mpi4py"] = None; sys.path.insert(0, os.getcwd())
os.environ["OMP_NUM_THREADS"] = "2"
import warnings; warnings.simplefilter("ignore")
import numpy as np
import enspara
assert enspara.__file__.startswith(os.getcwd()), enspara.__file__
from enspara import ra

def model_rows(res):
    return [np.asarray(res[i]) for i in range(len(res))]

bad = []
def check(label, fn, expected_rows=None, expected_arr=None):
    try:
        got = fn()
    except Exception as e:
        bad.append(label); print("FAIL %s: raised %s: %s" % (label, type(e).__name__, e)); return
    if expected_rows is not None:
        g = [r.tolist() for r in model_rows(got)]
        e = [np.asarray(r).tolist() for r in expected_rows]
        if g != e:   # values/shapes only; dtype is the subject of a separate finding
            bad.append(label); print("FAIL %s: got %s %s, list-of-rows model gives %s %s" % (label, g, [str(np.asarray(r).dtype) for r in model_rows(got)], e, [str(np.asarray(r).dtype) for r in expected_rows])); return
    if expected_arr is not None:
        ga = np.asarray(got); ea = np.asarray(expected_arr)
        if ga.shape != ea.shape or ga.dtype != ea.dtype or ga.tolist() != ea.tolist():
            bad.append(label); print("FAIL %s: got %r (shape %s, dtype %s), model gives %r (shape %s, dtype %s)" % (label, ga.tolist(), ga.shape, ga.dtype, ea.tolist(), ea.shape, ea.dtype)); return
    print("ok   %s" % label)

rows = [np.array([1, 2, 3]), np.array([4, 5, 6, 7]), np.array([8, 9])]
a = ra.RaggedArray([r.copy() for r in rows])
# row-slice bounds beyond the number of rows: a python list (and a[:10] itself) clips them
check("a[:10] (1-D form, works)", lambda: a[:10], expected_rows=rows[:10])
check("a[:10, :2]", lambda: a[:10, :2], expected_rows=[r[:2] for r in rows[:10]])
check("a[0:10, 0]", lambda: a[0:10, 0], expected_rows=[r[[0]] for r in rows[0:10]])
check("a[-10:, :]", lambda: a[-10:, :], expected_rows=[r[:] for r in rows[-10:]])
check("a[-4:, 0:2]  (silently returns 4 rows)", lambda: a[-4:, 0:2], expected_rows=[r[0:2] for r in rows[-4:]])
check("a[-4::2, 0]  (silently returns the wrong rows)", lambda: a[-4::2, 0], expected_rows=[r[[0]] for r in rows[-4::2]])
check("a[-5::3, [0, 1]]", lambda: a[-5::3, [0, 1]], expected_rows=[r[[0, 1]] for r in rows[-5::3]])
sys.exit(1 if bad else 0)

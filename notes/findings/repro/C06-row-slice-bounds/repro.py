import sys, os; sys.modules["mpi4py"] = None; sys.path.insert(0, os.getcwd())
os.environ["OMP_NUM_THREADS"] = "2"
import warnings; warnings.simplefilter("ignore")
import numpy as np; np.set_printoptions(legacy="1.25")
import enspara
assert enspara.__file__.startswith(os.getcwd()), "wrong enspara: %s" % enspara.__file__
from enspara.ra.ra import RaggedArray
problems = []
def run(label, f):
    try:
        return f()
    except Exception as e:
        problems.append("%s raised %s: %s" % (label, type(e).__name__, e))
        return None
def finish():
    for p in problems: print("VIOLATION:", p)
    if not problems: print("no violation observed")
    sys.exit(1 if problems else 0)

# C06: a row slice inside a 2-d index does not follow slice semantics
# (no clipping, negative start wraps, negative step selects nothing).
rows = [[1, 2, 3], [4, 5], [6]]
def fresh(): return RaggedArray([list(r) for r in rows])
a = fresh()
run("a[:5, 0] = 0 (stop past the end; model clips like rows[:5])", lambda: a.__setitem__((slice(None, 5), 0), 0))
if [list(r) for r in a] != [[0, 2, 3], [0, 5], [0]]:
    problems.append("after a[:5, 0] = 0 array is %s, model [[0,2,3],[0,5],[0]]" % [list(r) for r in a])
a = fresh()
got = run("a[-5:, 0]", lambda: list(a[-5:, 0]._data))
if got is not None and got != [1, 4, 6]:
    problems.append("a[-5:, 0] reads %s, model (rows[-5:] -> all 3 rows) reads [1, 4, 6]" % got)
a = fresh()
got = run("a[::-1, 0] (model: [6, 4, 1])", lambda: list(a[::-1, 0]._data))
if got is not None and got != [6, 4, 1]: problems.append("a[::-1, 0] reads %s, model [6, 4, 1]" % got)
a = fresh()
run("a[::-1, 0] = [60, 40, 10]", lambda: a.__setitem__((slice(None, None, -1), 0), [[60], [40], [10]]))
if [list(r) for r in a] != [[10, 2, 3], [40, 5], [60]]:
    problems.append("after a[::-1, 0] = [[60],[40],[10]] array is %s" % [list(r) for r in a])
# control: the same slices without a column index are handled by numpy and work
assert [list(r) for r in fresh()[:5]] == rows and [list(r) for r in fresh()[::-1]] == rows[::-1]
finish()

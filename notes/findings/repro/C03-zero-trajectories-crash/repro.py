import os
os.environ["OMP_NUM_THREADS"] = "2"
import sys; sys.modules["mpi4py"] = None; sys.path.insert(0, os.getcwd())
import numpy as np
import enspara
assert os.path.abspath(enspara.__file__).startswith(os.getcwd()), enspara.__file__
from enspara.msm.transition_matrices import assigns_to_counts

bad = 0
A = np.array([[0, 1, 1, 2], [2, 1, -1, -1]])
full = assigns_to_counts(A, 1, max_n_states=3).toarray()
# additivity over a partition {all} + {} : the empty part must contribute the zero matrix
try:
    empty = assigns_to_counts(A[:0], 1, max_n_states=3).toarray()
    if not np.array_equal(full, full + empty) or empty.shape != (3, 3):
        bad += 1; print("WRONG", empty)
except Exception as e:
    bad += 1
    print("FAIL zero trajectories, max_n_states=3 ->", type(e).__name__, e)
# for contrast: trajectories that exist but are all padding work and give zeros
print("all-padding rows:", assigns_to_counts(np.full((2, 4), -1), 1, max_n_states=3).toarray().tolist())
print("zero-length rows:", assigns_to_counts(np.zeros((2, 0), dtype=int), 1, max_n_states=3).toarray().tolist())
if bad:
    print("empty set of trajectories with explicit number of states crashes instead of "
          "returning the 3x3 zero matrix (breaks additivity over sets of trajectories, "
          "e.g. a worker/rank that owns no trajectory)")
    sys.exit(1)

import sys, os; sys.modules['mpi4py'] = None; sys.path.insert(0, os.getcwd())
os.environ['OMP_NUM_THREADS'] = '2'
import numpy as np
import scipy.sparse
import enspara
assert os.path.abspath(enspara.__file__).startswith(os.getcwd()), enspara.__file__
from enspara.tpt import committors

# 4-state irreducible row-stochastic chain (same as the project's test matrix)
T = np.array([[0.8, 0.2, 0.0, 0.0],
              [0.1, 0.6, 0.3, 0.0],
              [0.0, 0.2, 0.6, 0.2],
              [0.0, 0.0, 0.3, 0.7]])
sources = [0]
sink_set = [3]                  # the sink SET is {3}
spellings = {
    'repeated index [3, 3]': [3, 3],
    'negative alias [3, -1]': [3, -1],
    'concatenated state lists': np.concatenate([[3], [3]]),
}

q_ref = committors(T, sources, sink_set)
bad = 0
for name, sinks in spellings.items():
    for label, Tin in (('dense', T), ('csr', scipy.sparse.csr_matrix(T))):
        q = committors(Tin, sources, sinks)
        # first-step equation at the interior states 1 and 2
        resid = np.abs(q[[1, 2]] - T[[1, 2]] @ q).max()
        ok = np.allclose(q, q_ref) and q.max() <= 1 + 1e-12 and resid < 1e-12
        print('%-28s %-5s q=%s  first-step residual=%.3g  %s'
              % (name, label, np.round(q, 5), resid, 'ok' if ok else 'WRONG'))
        bad += not ok
print('reference (sinks=[3])              q=%s' % np.round(q_ref, 5))
if bad:
    print('FAIL: the same sink set {3}, spelled with a repeated index, gives '
          'committors that are k times too large (k = multiplicity), exceed 1 '
          'and violate the first-step equation')
    sys.exit(1)
print('no violation')

import sys, os; sys.modules['mpi4py'] = None; sys.path.insert(0, os.getcwd())
os.environ['OMP_NUM_THREADS'] = '2'
import warnings
import numpy as np

import enspara
assert enspara.__file__.startswith(os.getcwd()), enspara.__file__
from enspara.msm import builders

# BORDERLINE (needs a finely tuned overall scale of real-valued counts).
C = np.array([[0, 20, 1.],
              [2, 0, 30],
              [25, 6, 0]])
s = 0.03446196321995988     # scale at which the pseudo log-likelihood of the FIRST sweep is ~0


def loglik(C, T):
    m = C > 0
    return float(np.sum(C[m] * np.log(T[m])))


with warnings.catch_warnings(record=True) as w:
    warnings.simplefilter('always')
    T1, _ = builders._prinz_mle(C)          # reference: same counts, scale 1
    Ts, _ = builders._prinz_mle(C * s)      # same counts times a constant
    Tp, _ = builders._prinz_mle_py(C * s)   # ln instead of log10: same zero crossing, same early stop
print('warnings:', [str(x.message) for x in w])
print('max |T(s*C) - T(C)|  compiled: %.3e' % np.abs(Ts - T1).max())
print('max |T_py(s*C) - T_compiled(s*C)|: %.3e' % np.abs(Tp - Ts).max())
print('log-lik on C: T(C) %.6f, T(s*C) %.6f' % (loglik(C, T1), loglik(C, Ts)))
if np.abs(Ts - T1).max() > 1e-6:
    print('\nVIOLATION (borderline): multiplying the counts by a constant changes the estimate by '
          '%.1e: the iteration stops after ONE sweep, without warning, because the convergence '
          'test compares the first pseudo log-likelihood with the initial oldlogl = 0 (both '
          'implementations).' % np.abs(Ts - T1).max())
    sys.exit(1)
print('no violation')

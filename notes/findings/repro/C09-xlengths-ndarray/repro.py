import sys, os; sys.modules['mpi4py'] = None; sys.path.insert(0, os.getcwd())
os.environ['OMP_NUM_THREADS'] = '2'
import warnings; warnings.filterwarnings('ignore')
import logging; logging.disable(logging.CRITICAL)
import numpy as np
import enspara
assert enspara.__file__.startswith(os.getcwd()), enspara.__file__
from enspara.cluster.kmedoids import kmedoids
from enspara.cluster.kcenters import kcenters

X = np.random.RandomState(3).normal(size=(60, 2))            # 3 trajectories of 20 frames
r0 = kcenters(X, 'euclidean', n_clusters=4)
pairs = [[int(c) // 20, int(c) % 20] for c in r0.center_indices]   # [[traj, frame], ...]
kw = dict(n_iters=2, assignments=r0.assignments, distances=r0.distances,
          cluster_center_inds=pairs, random_state=0)

r_list = kmedoids(X, 'euclidean', X_lengths=[20, 20, 20], **kw)
print("X_lengths as list   : ok, cost %.6f <= %.6f" % (np.mean(r_list.distances ** 2), np.mean(r0.distances ** 2)))
try:
    r_arr = kmedoids(X, 'euclidean', X_lengths=np.array([20, 20, 20]), **kw)
    print("X_lengths as ndarray: ok")
    sys.exit(0)
except ValueError as e:
    print("X_lengths as ndarray: ValueError:", e)
    print("VIOLATION: the same consistent warm-start state crashes when the trajectory lengths are an "
          "ndarray (what ra.RaggedArray.lengths returns) because of `X_lengths==None`")
    sys.exit(1)

import sys, os; sys.modules["mpi4py"] = None; sys.path.insert(0, os.getcwd())
os.environ["OMP_NUM_THREADS"] = "2"
import warnings; warnings.simplefilter("ignore")
import numpy as np; np.set_printoptions(legacy="1.25")
import enspara
assert enspara.__file__.startswith(os.getcwd()), "wrong enspara: %s" % enspara.__file__
from enspara.ra.ra import RaggedArray
problems = []
def run(label, f):
    try:
        return f()
    except Exception as e:
        problems.append("%s raised %s: %s" % (label, type(e).__name__, e))
        return None
def finish():
    for p in problems: print("VIOLATION:", p)
    if not problems: print("no violation observed")
    sys.exit(1 if problems else 0)

# C06: a[:, -k:] (negative start in the ragged dimension) addresses the wrong
# elements: the write clobbers whole rows, the read returns wrapped duplicates.
rows = [[1, 2, 3], [4, 5], [6, 7, 8, 9]]
a = RaggedArray([list(r) for r in rows])
got = run("a[:, -1:]", lambda: [list(r) for r in a[:, -1:]])
exp = [r[-1:] for r in rows]
if got is not None and got != exp: problems.append("a[:, -1:] reads %s, model reads %s" % (got, exp))
run("a[:, -1:] = 0", lambda: a.__setitem__((slice(None), slice(-1, None)), 0))
model = [list(r) for r in rows]
for r in model: r[-1:] = [0] * len(r[-1:])
if [list(r) for r in a] != model:
    problems.append("after a[:, -1:] = 0 array is %s, model is %s" % ([list(r) for r in a], model))
b = RaggedArray([list(r) for r in rows])
run("b[[0, 2], -2:] += 10", lambda: b.__setitem__(([0, 2], slice(-2, None)), b[[0, 2], -2:] + 10))
model = [[1, 12, 13], [4, 5], [6, 7, 18, 19]]
if [list(r) for r in b] != model:
    problems.append("after b[[0,2], -2:] += 10 array is %s, model is %s" % ([list(r) for r in b], model))
# negative step in the ragged dimension: silently selects nothing (single-row form a[0, ::-1] works)
c = RaggedArray([[1, 2, 3], [4, 5, 6, 7]])
run("c[:, ::-1] = 0", lambda: c.__setitem__((slice(None), slice(None, None, -1)), 0))
if list(c._data) != [0] * 7:
    problems.append("after c[:, ::-1] = 0 data is %s, model is all zeros" % list(c._data))
finish()

import sys, os; sys.modules["mpi4py"] = None; sys.path.insert(0, os.getcwd())
os.environ["OMP_NUM_THREADS"] = "2"
import warnings; warnings.simplefilter("ignore")
import numpy as np; np.set_printoptions(legacy="1.25")
import enspara
assert enspara.__file__.startswith(os.getcwd()), "wrong enspara: %s" % enspara.__file__
from enspara.ra.ra import RaggedArray
problems = []
def run(label, f):
    try:
        return f()
    except Exception as e:
        problems.append("%s raised %s: %s" % (label, type(e).__name__, e))
        return None
def finish():
    for p in problems: print("VIOLATION:", p)
    if not problems: print("no violation observed")
    sys.exit(1 if problems else 0)

# C06: a 2-d slice crashes as soon as ONE addressed row contributes no element.
rows = [[1], [2, 3], [4, 5, 6]]
a = RaggedArray([list(r) for r in rows])
got = run("a[:, 1:] (row 0 has length 1)", lambda: [list(r) for r in a[:, 1:]])
if got is not None and got != [[], [3], [5, 6]]: problems.append("a[:, 1:] reads %s" % got)
run("a[:, 1:] = 0", lambda: a.__setitem__((slice(None), slice(1, None)), 0))
if [list(r) for r in a] != [[1], [2, 0], [4, 0, 0]]:
    problems.append("after a[:, 1:] = 0 array is %s, model [[1],[2,0],[4,0,0]]" % [list(r) for r in a])
b = RaggedArray([list(r) for r in rows])
run("b[:, :-1] += 1 (the idiom of test_RaggedArray_negative_slicing)",
    lambda: b.__setitem__((slice(None), slice(None, -1)), b[:, :-1] + 1))
if [list(r) for r in b] != [[1], [3, 3], [5, 6, 6]]:
    problems.append("after b[:, :-1] += 1 array is %s, model [[1],[3,3],[5,6,6]]" % [list(r) for r in b])
c = RaggedArray([list(r) for r in rows])
run("c[[1, 2], 2:] = 9 (row 1 has length 2)", lambda: c.__setitem__(([1, 2], slice(2, None)), 9))
if [list(r) for r in c] != [[1], [2, 3], [4, 5, 9]]:
    problems.append("after c[[1,2], 2:] = 9 array is %s" % [list(r) for r in c])
finish()

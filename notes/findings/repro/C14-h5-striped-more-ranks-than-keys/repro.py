import sys, os; sys.modules['mpi4py'] = None; sys.path.insert(0, os.getcwd())
os.environ['OMP_NUM_THREADS'] = '2'
# C14: load_h5_as_striped crashes (IndexError) on every rank that owns no key, i.e. as soon
# as there are more ranks than trajectories in the h5 file.  load_npy_as_striped (after
# 940cbb2) returns an empty block for such a rank.
import warnings, logging, tempfile, traceback, shutil, atexit
warnings.simplefilter('ignore'); logging.disable(logging.CRITICAL)
import numpy as np, tables
import enspara
assert os.path.abspath(enspara.__file__).startswith(os.getcwd()), enspara.__file__
import enspara.mpi as empi
from enspara import ra
from enspara.mpi import io as mio

# Ranks are simulated one after the other.  The only collectives in load_h5_as_striped are
# two bcast(root=0); rank 0 runs first and what it broadcasts is replayed to the others.
class ReplayComm:
    def __init__(self): self.rec, self.pos, self.rank = [], 0, 0
    def bcast(self, v, root=0):
        assert root == 0
        if self.rank == 0:
            self.rec.append(v); return v
        v = self.rec[self.pos]; self.pos += 1; return v

def run_ranks(n, fn):
    comm = ReplayComm(); saved = (empi.rank, empi.size, empi.comm)
    empi.rank, empi.size, empi.comm = (lambda: comm.rank), (lambda: n), comm
    out = []
    try:
        for r in range(n):
            comm.rank, comm.pos = r, 0
            try: out.append(fn(r))
            except Exception: out.append(traceback.format_exc())
    finally:
        empi.rank, empi.size, empi.comm = saved
    return out

tmp = tempfile.mkdtemp(dir=os.path.dirname(os.path.abspath(__file__)))
atexit.register(shutil.rmtree, tmp, True)
rows = [np.arange(8.).reshape(4, 2), 100 + np.arange(6.).reshape(3, 2)]      # 2 trajectories
h5 = os.path.join(tmp, 'feat.h5')
with tables.open_file(h5, 'w') as h:
    for i, r in enumerate(rows):
        h.create_carray(where='/', name='arr_%02d' % i, obj=r)
npys = []
for i, r in enumerate(rows):
    npys.append(os.path.join(tmp, 'f%d.npy' % i)); np.save(npys[-1], r)

serial = ra.load(h5)
print("serial ra.load: lengths", serial.lengths.tolist())

bad = False
for n in (1, 2, 3):
    res = run_ranks(n, lambda r: mio.load_h5_as_striped(h5))
    ref = run_ranks(n, lambda r: mio.load_npy_as_striped(npys))
    for r in range(n):
        expect = rows[r::n]
        expect = np.concatenate(expect) if expect else np.zeros((0, 2))
        assert list(ref[r][0]) == [4, 3] and np.array_equal(ref[r][1], expect)   # npy loader is right
        if isinstance(res[r], str):
            bad = True
            print("world size %d, rank %d: load_h5_as_striped CRASHED: %s   (expected lengths [4, 3] and a block of shape %s; "
                  "load_npy_as_striped returns exactly that)" % (n, r, res[r].strip().splitlines()[-1], expect.shape))
        else:
            gl, block = res[r]
            good = list(gl) == [4, 3] and np.array_equal(block, expect)
            bad |= not good
            print("world size %d, rank %d: lengths %s block shape %s %s" % (n, r, list(gl), np.shape(block), 'ok' if good else 'WRONG'))
if bad:
    print("VIOLATION of C14: striped h5 loading fails on a rank that owns no key (more ranks than trajectories)")
    sys.exit(1)
print("no violation")

import sys, os; sys.modules["mpi4py"] = None; sys.path.insert(0, os.getcwd())
os.environ["OMP_NUM_THREADS"] = "2"
import warnings, logging
import numpy as np, scipy.sparse as sp
import enspara
assert os.path.realpath(enspara.__file__).startswith(os.path.realpath(os.getcwd())), enspara.__file__
logging.disable(logging.WARNING)
from enspara.msm import builders

# integer counts (what assigns_to_counts produces: dtype=int) held in lil / dok containers
C = np.array([[3, 1, 0], [2, 5, 1], [1, 0, 4]])
ref = (C + C.T) / 2          # what the dense call returns as symmetrised counts
Cd, Td, pid = builders.transpose(C)
assert np.array_equal(Cd, ref)
bad = []
for name, f in [("csr", sp.csr_matrix), ("csc", sp.csc_matrix), ("coo", sp.coo_matrix), ("lil", sp.lil_matrix),
                ("dok", sp.dok_matrix), ("dia", sp.dia_matrix), ("bsr", sp.bsr_matrix)]:
    Cs, Ts, pis = builders.transpose(f(C))
    if not np.array_equal(Cs.toarray(), ref):
        bad.append(name)
        print("transpose(%s int64) returned counts (dtype %s)\n%s\nbut dense / other formats give\n%s"
              % (name, Cs.dtype, Cs.toarray(), ref))
        # the returned counts are not even consistent with the returned T / pi
        rs = Cs.toarray().sum(1)
        print("  row-normalising the returned counts gives T[2] =", Cs.toarray()[2] / rs[2], "but returned T[2] =", Ts.toarray()[2])
if bad:
    print("FAIL: floor-divided symmetrised counts for", bad)
    sys.exit(1)
print("ok")

import sys, os; sys.modules["mpi4py"] = None; sys.path.insert(0, os.getcwd())
os.environ["OMP_NUM_THREADS"] = "2"
import warnings, logging
import numpy as np, scipy.sparse as sp
import enspara
assert os.path.realpath(enspara.__file__).startswith(os.path.realpath(os.getcwd())), enspara.__file__
logging.disable(logging.WARNING)
from enspara.msm import builders

rng = np.random.default_rng(0)
# an ordinary fully populated 8-state count matrix; bsr_matrix() picks blocksize (4, 4) for it by itself
C = rng.integers(1, 50, size=(8, 8))
B = sp.bsr_matrix(C)
print("bsr blocksize chosen by scipy:", B.blocksize)
Cd, Td, pid = builders.transpose(C)           # dense reference works
ok = True
try:
    Cs, Ts, pis = builders.transpose(B)
    assert np.allclose(pis, pid) and np.allclose(Ts.toarray(), Td)
except Exception as e:
    ok = False
    print("transpose(bsr_matrix 8x8) raised %s: %s" % (type(e).__name__, e))
# smallest case: 4 states, two-by-two blocks
C4 = np.array([[5, 2, 1, 1], [3, 4, 1, 2], [1, 1, 6, 2], [2, 1, 3, 5]])
try:
    builders.transpose(sp.bsr_matrix(C4, blocksize=(2, 2)))
except Exception as e:
    ok = False
    print("transpose(bsr_matrix 4x4, blocksize 2x2) raised %s: %s" % (type(e).__name__, e))
# calculate_eq_probs=False works, so only the population step is broken
builders.transpose(B, calculate_eq_probs=False)
if not ok:
    print("FAIL: dense input gives pi =", pid)
    sys.exit(1)
print("ok")

import sys, os; sys.modules['mpi4py'] = None; sys.path.insert(0, os.getcwd())
os.environ['OMP_NUM_THREADS'] = '2'
import warnings, logging
warnings.simplefilter('ignore'); logging.disable(logging.CRITICAL)
import numpy as np
import scipy.sparse
import enspara
assert enspara.__file__.startswith(os.getcwd()), enspara.__file__
from enspara.msm import builders, MSM
from enspara.msm.transition_matrices import eigenspectrum, eq_probs

# A perfectly ordinary, ergodic, reversible 1200-state chain given as a sparse
# counts matrix (ring + random long-range jumps, symmetrised by the transpose
# builder so that every eigenvalue/eigenvector is real).
rng = np.random.default_rng(0)
n = 1200
i = np.concatenate([np.arange(n), np.arange(n), rng.integers(0, n, 3 * n)])
j = np.concatenate([np.arange(n), (np.arange(n) + 1) % n, rng.integers(0, n, 3 * n)])
C = scipy.sparse.coo_matrix(
    (rng.integers(1, 20, len(i)).astype(float), (i, j)), shape=(n, n)).tocsr()
_, T, _ = builders.transpose(C, calculate_eq_probs=False)
assert scipy.sparse.issparse(T)

failures = []

# 1. the very same call, twice
vals1, vecs1 = eigenspectrum(T, n_eigs=5)
vals2, vecs2 = eigenspectrum(T, n_eigs=5)
if not np.array_equal(vecs1, vecs2):
    signs = [int(np.sign(vecs1[:, k] @ vecs2[:, k])) for k in range(5)]
    failures.append(
        "eigenspectrum(T, n_eigs=5) called twice on the same sparse T returned "
        "different eigenvectors: max |diff| = %.3g, relative orientation of "
        "the 5 columns = %s" % (np.abs(vecs1 - vecs2).max(), signs))
if not np.array_equal(vals1, vals2):
    failures.append("eigenvalues differ between identical calls: max |diff| "
                    "= %.3g" % np.abs(vals1 - vals2).max())

# 2. eq_probs: same call, different bits
p = [eq_probs(T) for _ in range(4)]
if not all(np.array_equal(p[0], q) for q in p[1:]):
    failures.append(
        "eq_probs(T) is not reproducible: max |diff| between identical calls "
        "= %.3g" % max(np.abs(p[0] - q).max() for q in p[1:]))

# 2b. the dense route on the same matrix IS reproducible
Td = T.toarray()
assert np.array_equal(eq_probs(Td), eq_probs(Td))

# 3. user-visible consequence: two MSMs fit on identical data compare unequal
walk = np.cumsum(np.random.default_rng(1).integers(-3, 4, size=60000)) % n
assigns = walk.reshape(1, -1)
a = MSM(lag_time=1, method=builders.normalize); a.fit(assigns)
b = MSM(lag_time=1, method=builders.normalize); b.fit(assigns)
if not (a == b):
    failures.append(
        "MSM.fit on identical assignments (%d states, builder normalize) gives "
        "MSM objects with a != b; max |eq_probs diff| = %.3g"
        % (a.n_states_, np.abs(a.eq_probs_ - b.eq_probs_).max()))

if failures:
    print("C19 VIOLATED: result depends on something other than the arguments")
    for f in failures:
        print(" -", f)
    sys.exit(1)
print("no violation observed")

import sys, os; sys.modules['mpi4py'] = None; sys.path.insert(0, os.getcwd())
os.environ['OMP_NUM_THREADS'] = '2'
import warnings, logging
warnings.simplefilter('ignore'); logging.disable(logging.CRITICAL)
import numpy as np
import enspara
assert enspara.__file__.startswith(os.getcwd()), enspara.__file__
from enspara import ra

failures = []
e = ra.RaggedArray([])          # the "blank" ragged array append() has a branch for
assert len(e) == 0
for name, call in (
        ("append([[1, 2], [3]])", lambda: e.append([[1, 2], [3]])),
        ("size", lambda: e.size),
        ("flatten()", lambda: e.flatten()),
        ("dtype", lambda: e.dtype),
        ("__eq__(1)", lambda: e == 1),
        ("max()", lambda: e.max())):
    try:
        call()
    except AttributeError as ex:
        failures.append("RaggedArray([]).%s -> AttributeError: %s" % (name, ex))

if failures:
    print("C19 VIOLATED: methods read the slot _data that __init__ never initialised")
    for f in failures:
        print(" -", f)
    sys.exit(1)
print("no violation observed")

import sys, os; sys.modules['mpi4py'] = None; sys.path.insert(0, os.getcwd())
os.environ['OMP_NUM_THREADS'] = '2'
import warnings; warnings.simplefilter('ignore')
import tempfile
import numpy as np
import enspara
from enspara import ra
assert enspara.__file__.startswith(os.getcwd()), enspara.__file__

# two "trajectories" of 3 frames each, every frame a 2-feature vector
rows = [np.arange(6.).reshape(3, 2), np.arange(6.).reshape(3, 2) + 10]
x = ra.RaggedArray(rows)                      # 2 rows, lengths [3, 3]
assert len(x) == 2 and list(x.lengths) == [3, 3]

fn = os.path.join(tempfile.mkdtemp(), 'x.h5')
ra.save(fn, x)
y = ra.load(fn)

bad = []
if len(y) != len(rows):
    bad.append("len(loaded) = %d, expected %d rows" % (len(y), len(rows)))
for i in range(len(rows)):
    got = np.asarray(y[i])
    if got.shape != rows[i].shape or not np.array_equal(got, rows[i]):
        bad.append("loaded[%d] = %r, expected %r" % (i, got.tolist(), rows[i].tolist()))

# control: same data with unequal lengths round-trips fine
rows2 = [np.arange(6.).reshape(3, 2), np.arange(8.).reshape(4, 2)]
ra.save(fn, ra.RaggedArray(rows2))
y2 = ra.load(fn)
assert len(y2) == 2 and all(np.array_equal(y2[i], rows2[i]) for i in range(2))

# same root cause on the save side: concatenated data + ndarray lengths
x3 = ra.RaggedArray(np.concatenate(rows), lengths=np.array([3, 3]))
ra.save(fn, x3)
y3 = ra.load(fn)
if list(y3.lengths) != [3, 3]:
    bad.append("RaggedArray(data(6,2), lengths=array([3,3])) saved/loaded with "
               "lengths %s, expected [3, 3]" % list(y3.lengths))

if bad:
    print("C15 VIOLATED: ragged array with 2-D elements and equal row lengths "
          "does not round-trip through ra.save/ra.load")
    for b in bad:
        print("  -", b)
    sys.exit(1)
print("ok")

import sys, os; sys.modules['mpi4py'] = None; sys.path.insert(0, os.getcwd())
os.environ['OMP_NUM_THREADS'] = '2'
import warnings, logging
warnings.simplefilter('ignore'); logging.disable(logging.CRITICAL)
import numpy as np
import mdtraj as md
import enspara
assert enspara.__file__.startswith(os.getcwd()), enspara.__file__
from enspara.cluster import kcenters, kmedoids, hybrid, util, KCenters

# a small synthetic 15-atom trajectory whose frames sit ~5 nm away from the origin
top = md.Topology(); ch = top.add_chain()
for _ in range(5):
    res = top.add_residue('ALA', ch)
    for nm in ('N', 'CA', 'C'):
        top.add_atom(nm, md.element.carbon, res)
rng = np.random.default_rng(0)
XYZ = (rng.normal(size=(60, 15, 3)) + rng.normal(size=(60, 1, 3)) * 3 + 5).astype(np.float32)


def fresh():
    return md.Trajectory(XYZ.copy(), top)


failures = []


def run(name, fn):
    trj = fresh()
    out = fn(trj)
    shift = np.abs(trj.xyz - XYZ).max()
    if shift > 0:
        failures.append("%s modified its trajectory argument in place: max "
                        "coordinate change %.3f nm (frame centroids now at "
                        "|c| <= %.1e, were up to %.2f)"
                        % (name, shift, np.abs(trj.xyz.mean(1)).max(),
                           np.abs(XYZ.mean(1)).max()))
    return trj, out


trj, r1 = run("kcenters(traj, 'rmsd', n_clusters=4)",
              lambda t: kcenters.kcenters(t, 'rmsd', n_clusters=4))
# history dependence: the same call on the (now recentred) object
r2 = kcenters.kcenters(trj, 'rmsd', n_clusters=4)
if not np.array_equal(r1.distances, r2.distances):
    failures.append("repeating kcenters(traj, 'rmsd', n_clusters=4) on the same "
                    "trajectory object changes the distances: max |diff| = %.3g"
                    % np.abs(r1.distances - r2.distances).max())
# returned centres are not the caller's frames any more
dev = max(np.abs(c.xyz[0] - XYZ[i]).max() for i, c in zip(r1.center_indices, r1.centers))
if dev > 0:
    failures.append("result.centers[k] != original frame center_indices[k]: "
                    "max deviation %.3f nm" % dev)

run("kmedoids(X, 'rmsd', n_clusters=4, n_iters=2, random_state=0)",
    lambda t: kmedoids.kmedoids(t, 'rmsd', n_clusters=4, n_iters=2, random_state=0))
run("hybrid(X, 'rmsd', n_clusters=4, n_iters=1, random_state=0)",
    lambda t: hybrid.hybrid(t, 'rmsd', n_clusters=4, n_iters=1, random_state=0))
run("assign_to_nearest_center(trajectory, centers, md.rmsd)",
    lambda t: util.assign_to_nearest_center(t, md.Trajectory(XYZ[[0, 7, 9]].copy(), top), md.rmsd))
kc = KCenters('rmsd', n_clusters=3).fit(fresh())
run("KCenters.predict(X)", lambda t: kc.predict(t))

if failures:
    print("C19 VIOLATED: argument modified although not documented to work in place")
    for f in failures:
        print(" -", f)
    sys.exit(1)
print("no violation observed")

import sys, os; sys.modules["mpi4py"] = None; sys.path.insert(0, os.getcwd())
os.environ["OMP_NUM_THREADS"] = "2"
import warnings; warnings.simplefilter("ignore")
import numpy as np; np.set_printoptions(legacy="1.25")
import enspara
assert enspara.__file__.startswith(os.getcwd()), "wrong enspara: %s" % enspara.__file__
from enspara.ra.ra import RaggedArray
problems = []
def run(label, f):
    try:
        return f()
    except Exception as e:
        problems.append("%s raised %s: %s" % (label, type(e).__name__, e))
        return None
def finish():
    for p in problems: print("VIOLATION:", p)
    if not problems: print("no violation observed")
    sys.exit(1 if problems else 0)

# C06: a same-length row assignment on a ragged array whose rows happen to be
# equally long turns the flat data into dtype=object; "~" then yields -1/-2.
m = RaggedArray([[True, False], [False, True]])      # boolean mask, 2 rows of 2
m[0] = [False, False]                                # structure-preserving row write
model = [[False, False], [False, True]]
if [list(r) for r in m] != model:
    problems.append("rows after write %s != model %s" % ([list(r) for r in m], model))
if m._data.dtype != np.bool_:
    problems.append("flat data dtype became %s (was bool) after m[0] = [False, False]" % m._data.dtype)
inv = ~m
exp_inv = [[True, True], [True, False]]
got_inv = [list(r) for r in inv]
if got_inv != exp_inv or any(type(x) not in (bool, np.bool_) for r in got_inv for x in r):
    problems.append("~m gives %s, model gives %s" % (got_inv, exp_inv))
a = RaggedArray([[1, 2], [3, 4]])
sel = run("a[~m]", lambda: list(a[~m]))
if sel is not None and sel != [1, 2, 3]:
    problems.append("a[~m] selects %s, model selects [1, 2, 3]" % sel)
a[~m] = 0
if list(a._data) != [0, 0, 0, 4]:
    problems.append("a[~m] = 0 leaves %s, model leaves [0, 0, 0, 4]" % list(a._data))

# same decay through other writers
b = RaggedArray([[1, 2, 3], [4, 5, 6]]); b[0] += 1
if b._data.dtype == object: problems.append("b[0] += 1 on int rows -> dtype object")
c = RaggedArray([[1, 2, 3], [4, 5, 6]]); c[0, 0:2] = [8, 9]
if c._data.dtype == object: problems.append("c[0, 0:2] = [8, 9] -> dtype object")
d = RaggedArray([[1, 2, 3], [4]]); d.append(RaggedArray([[5, 6]]))
if d._data.dtype == object: problems.append("ragged d.append(RaggedArray([[5, 6]])) -> dtype object")
finish()

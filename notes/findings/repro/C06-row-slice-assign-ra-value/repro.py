import sys, os; sys.modules["mpi4py"] = None; sys.path.insert(0, os.getcwd())
os.environ["OMP_NUM_THREADS"] = "2"
import warnings; warnings.simplefilter("ignore")
import numpy as np; np.set_printoptions(legacy="1.25")
import enspara
assert enspara.__file__.startswith(os.getcwd()), "wrong enspara: %s" % enspara.__file__
from enspara.ra.ra import RaggedArray
problems = []
def run(label, f):
    try:
        return f()
    except Exception as e:
        problems.append("%s raised %s: %s" % (label, type(e).__name__, e))
        return None
def finish():
    for p in problems: print("VIOLATION:", p)
    if not problems: print("no violation observed")
    sys.exit(1 if problems else 0)

# C06: row / row-slice assignment is delegated to numpy broadcasting on the
# internal row container, whose rank depends on whether rows are equally long.
# (1) structure-preserving slice assignment with a RaggedArray value crashes
a = RaggedArray([[1, 2], [3, 4], [5, 6, 7]])
run("a[0:2] = RaggedArray([[7, 8], [9, 10]])", lambda: a.__setitem__(slice(0, 2), RaggedArray([[7, 8], [9, 10]])))
if [list(r) for r in a] != [[7, 8], [9, 10], [5, 6, 7]]:
    problems.append("after a[0:2] = RA([[7,8],[9,10]]) array is %s" % [list(r) for r in a])
# control: same thing with a value whose rows differ in length works
c = RaggedArray([[1, 2], [3, 4, 5], [5, 6, 7]]); c[0:2] = RaggedArray([[7, 8], [9, 10, 11]])
assert [list(r) for r in c] == [[7, 8], [9, 10, 11], [5, 6, 7]]
# (2) ... and with a one-row value it corrupts the object before raising
b = RaggedArray(np.arange(5), lengths=[1, 4])
run("b[0:1] = RaggedArray([[19]])", lambda: b.__setitem__(slice(0, 1), RaggedArray([[19]])))
try:
    rows = [list(np.atleast_1d(r)) for r in b]
    if rows != [[19], [1, 2, 3, 4]] or list(b._data) != [19, 1, 2, 3, 4]:
        problems.append("after b[0:1] = RA([[19]]): rows %s, flat data %s (incoherent)" % (rows, list(b._data)))
except Exception as e:
    problems.append("observing b afterwards raised %s" % e)
# (3) the same row assignment means different things depending on history
d = RaggedArray([[1, 2], [3, 4, 5]]); d[0] = [9]            # ragged: row replaced
e = RaggedArray([[1, 2], [3, 4]]);    run("e[0] = [9]", lambda: e.__setitem__(0, [9]))
if list(d.lengths) != [1, 3]: problems.append("control failed")
if list(e.lengths) != [1, 2]:
    problems.append("e[0] = [9] with equal-length rows gives rows %s / lengths %s; with unequal rows the row is replaced (lengths %s)"
                    % ([list(r) for r in e], list(e.lengths), list(d.lengths)))
f = RaggedArray([[1, 2], [3, 4]]); run("f[0] = [7, 8, 9] (equal-length rows)", lambda: f.__setitem__(0, [7, 8, 9]))
finish()

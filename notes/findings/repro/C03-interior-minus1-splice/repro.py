import os
os.environ["OMP_NUM_THREADS"] = "2"
import sys; sys.modules["mpi4py"] = None; sys.path.insert(0, os.getcwd())
import numpy as np
import enspara
assert os.path.abspath(enspara.__file__).startswith(os.getcwd()), enspara.__file__
from enspara.msm.transition_matrices import assigns_to_counts

# frame 1 is unassigned (-1) in the middle of the trajectory
a = np.array([[0, -1, 1, 2]])
# pairs of *assigned* frames (t, t+1): only (2,3) -> 1->2.   (0,1) and (1,2) involve the unassigned frame.
exp1 = np.zeros((3, 3), int); exp1[1, 2] = 1
# pairs (t, t+2): (0,2) -> 0->1 ; (1,3) has an unassigned start.
exp2 = np.zeros((3, 3), int); exp2[0, 1] = 1
got1 = assigns_to_counts(a, 1).toarray()
got2 = assigns_to_counts(a, 2).toarray()
bad = 0
if not np.array_equal(got1, exp1):
    bad += 1; print("lag 1: got\n", got1, "\nexpected\n", exp1,
                    "\n-> counted 0->1 between frames 0 and 2, which are 2 apart, not lag=1")
if not np.array_equal(got2, exp2):
    bad += 1; print("lag 2: got\n", got2, "\nexpected\n", exp2,
                    "\n-> counted 0->2 between frames 0 and 3 (3 apart) and missed 0->1 between frames 0 and 2")
if bad:
    print("interior -1 frames are deleted before slicing, so the trajectory is spliced and "
          "frames further apart than the lag are counted as a lagged pair")
    sys.exit(1)

import os
os.environ["OMP_NUM_THREADS"] = "2"
import sys; sys.modules["mpi4py"] = None; sys.path.insert(0, os.getcwd())
import numpy as np
import enspara
assert os.path.abspath(enspara.__file__).startswith(os.getcwd()), enspara.__file__
from enspara.msm.transition_matrices import assigns_to_counts

from enspara import ra
# Same two trajectories [0,127,127] and [1,0]; state ids fit the dtype (int8 max = 127).
trjs = [[0, 127, 127], [1, 0]]
expected = np.zeros((128, 128), dtype=int)
expected[0, 127] = expected[127, 127] = expected[1, 0] = 1

bad = 0
ref64 = assigns_to_counts(np.array([[0, 127, 127], [1, 0, -1]], dtype=np.int64), 1).toarray()
assert np.array_equal(ref64, expected)

cases = {
    "int8 padded rectangular": lambda: np.array([[0, 127, 127], [1, 0, -1]], dtype=np.int8),
    "int8 RaggedArray": lambda: ra.RaggedArray([np.array(t, dtype=np.int8) for t in trjs]),
    "int16 padded (state 32767)": lambda: np.array([[0, 32767, 32767], [1, 0, -1]], dtype=np.int16),
    "uint8 RaggedArray (state 255)": lambda: ra.RaggedArray(
        [np.array([0, 255, 255], dtype=np.uint8), np.array([1, 0], dtype=np.uint8)]),
}
for name, mk in cases.items():
    try:
        C = assigns_to_counts(mk(), 1).toarray()
        print("ok  ", name, C.shape, C.sum())
    except Exception as e:
        bad += 1
        print("FAIL", name, "->", type(e).__name__, e)

# whereas the *same dtype* without padding (all rows equal length) works, so the
# result depends on ragged/padded vs rectangular layout and on the storage dtype:
C = assigns_to_counts(np.array([[0, 127, 127], [1, 0, 0]], dtype=np.int8), 1)
print("int8 unpadded rectangular works:", C.shape)

if bad:
    print("%d narrow-dtype inputs crash although the int64 spelling of the same "
          "trajectories gives the correct 128x128 matrix" % bad)
    sys.exit(1)

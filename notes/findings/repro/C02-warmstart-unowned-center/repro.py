import sys, os; sys.modules['mpi4py'] = None; sys.path.insert(0, os.getcwd())
os.environ['OMP_NUM_THREADS'] = '2'
import warnings; warnings.simplefilter('ignore')
import logging
import numpy as np
import enspara
logging.disable(logging.CRITICAL)
assert enspara.__file__.startswith(os.getcwd()), enspara.__file__
from enspara.cluster.kcenters import kcenters, KCenters

# Two blobs of frames (around x=0 and around x=10).
X = np.array([[0.0, 0.0], [0.3, 0.0], [1.0, 0.2], [4.0, 0.0],
              [10.0, 0.0], [10.4, 0.0], [11.0, 0.3], [16.0, 0.0]])
# Warm start from three previously found centers.  The middle one lies in a
# region that this data set does not visit, so no frame is nearest to it.
init = np.array([[0.0, 0.0], [50.0, 50.0], [10.0, 0.0]])

def euc(A, y):
    return np.sqrt(((A - y) ** 2).sum(axis=1))

problems = []

# --- (a) n_clusters stop: asks for 4 centers in total, i.e. ONE new center
res = kcenters(X, 'euclidean', n_clusters=4, init_centers=init)
print('n_clusters=4 -> len(centers) =', len(res.centers),
      ' len(center_indices) =', len(res.center_indices))
print('assignments =', res.assignments)
if len(res.centers) != 4:
    problems.append('asked for n_clusters=4 (3 initial + 1 new) but got %d centers'
                    % len(res.centers))
if len(res.center_indices) != len(res.centers):
    problems.append('len(center_indices)=%d != len(centers)=%d'
                    % (len(res.center_indices), len(res.centers)))
# labels must point at the nearest returned center, distances must match
D = np.array([euc(X, np.asarray(c)) for c in res.centers])   # (n_centers, n)
true_lab = D.argmin(axis=0)
if not np.array_equal(true_lab, res.assignments):
    problems.append('labels do not index result.centers: got %s, nearest center is %s'
                    % (res.assignments, true_lab))
if res.assignments.max() >= len(res.centers) or \
        not np.allclose(D[res.assignments, np.arange(len(X))], res.distances):
    problems.append('distances[i] is not the distance to centers[assignments[i]]')

# --- (b) same through the sklearn-style class
c = KCenters('euclidean', n_clusters=4).fit(X, init_centers=init)
if len(c.centers_) != 4:
    problems.append('KCenters(n_clusters=4).fit(init_centers=3 centers) returned %d centers'
                    % len(c.centers_))

# --- (c) with the triangle-inequality shortcut the same call crashes
try:
    kcenters(X, 'euclidean', n_clusters=4, init_centers=init,
             use_triangle_inequality=True)
except Exception as e:
    problems.append('use_triangle_inequality=True raises %s: %s'
                    % (type(e).__name__, e))

if problems:
    print('VIOLATION (C02):')
    for p in problems:
        print('  -', p)
    sys.exit(1)
print('ok')

"""Reproducer: k-centers never terminates on the UNMODIFIED tree when an
initial center owns no frame, the triangle-inequality shortcut is on and only
a radius criterion is given.  Exit 0: terminated; exit 3: watchdog fired."""
import os
os.environ.setdefault("OMP_NUM_THREADS", "2")
import sys
sys.modules['mpi4py'] = None
sys.path.insert(0, os.getcwd())
import warnings
warnings.simplefilter('ignore')
import logging
logging.disable(logging.CRITICAL)
import signal

import numpy as np
import enspara
assert os.path.abspath(enspara.__file__).startswith(os.getcwd() + os.sep), \
    enspara.__file__
from enspara.cluster import kcenters as kc

X = np.array([[0.], [100.], [103.]])
INIT = np.array([[0.], [0.]])      # second center is a duplicate: owns no frame
CUTOFF = 0.5
TI = '--plain' not in sys.argv

state = {}
orig = kc._kcenters_iteration


def traced(traj, dm, distances, assignments, center_inds, **kw):
    out = orig(traj, dm, distances, assignments, center_inds, **kw)
    state['n'] = state.get('n', 0) + 1
    if state['n'] <= 6:
        print("iter %d: center_inds=%s labels=%s distances=%s"
              % (state['n'], [int(i) for i in out[3]], out[2].tolist(),
                 out[1].tolist()), flush=True)
    return out


kc._kcenters_iteration = traced


def on_alarm(signum, frame):
    print("TIMEOUT after 10 s: kcenters still looping after %d iterations "
          "(use_triangle_inequality=%s)" % (state.get('n', 0), TI),
          flush=True)
    os._exit(3)


signal.signal(signal.SIGALRM, on_alarm)
signal.alarm(10)
res = kc.kcenters(X, 'euclidean', n_clusters=None, dist_cutoff=CUTOFF,
                  init_centers=INIT, use_triangle_inequality=TI)
signal.alarm(0)
print("terminated (use_triangle_inequality=%s): center_indices=%s labels=%s "
      "distances=%s n_centers=%d"
      % (TI, [int(i) for i in res.center_indices], res.assignments.tolist(),
         res.distances.tolist(), len(res.centers)))

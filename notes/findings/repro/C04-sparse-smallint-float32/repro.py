import sys, os; sys.modules["mpi4py"] = None; sys.path.insert(0, os.getcwd())
os.environ["OMP_NUM_THREADS"] = "2"
import warnings, logging, time
import numpy as np, scipy.sparse as sp
import enspara
assert os.path.realpath(enspara.__file__).startswith(os.path.realpath(os.getcwd())), enspara.__file__
logging.disable(logging.WARNING)
from enspara.msm import builders

warnings.simplefilter("ignore")
# counts stored compactly as int16 (also int8 / uint8 / uint16)
C = np.array([[3, 1, 0], [2, 5, 1], [1, 0, 4]], dtype=np.int16)
exact = C.astype(float) / C.sum(1, keepdims=True)
bad = False
for b in ("normalize", "transpose"):
    ref = exact if b == "normalize" else (C + C.T).astype(float) / (C + C.T).sum(1, keepdims=True)
    _, Td, pid = getattr(builders, b)(C)
    _, Ts, pis = getattr(builders, b)(sp.csr_matrix(C))
    Ts = Ts.toarray()
    print("%-9s dense : max|T-exact| = %.1e, max|rowsum-1| = %.1e" % (b, np.abs(Td - ref).max(), np.abs(Td.sum(1) - 1).max()))
    print("%-9s csr   : max|T-exact| = %.1e, max|rowsum-1| = %.1e, max|T_dense-T_csr| = %.1e, |pi T - pi| = %.1e"
          % (b, np.abs(Ts - ref).max(), np.abs(Ts.sum(1) - 1).max(), np.abs(Ts - Td).max(), np.abs(pis @ Ts - pis).max()))
    if np.abs(Ts - Td).max() > 1e-12 or np.abs(Ts.sum(1) - 1).max() > 1e-12:
        bad = True
# int32 / int64 sparse input is exact:
_, T64, _ = builders.normalize(sp.csr_matrix(C.astype(np.int64)))
assert np.abs(T64.toarray() - exact).max() < 1e-15
if bad:
    print("FAIL: float64 result of the sparse branch only carries single precision for int8/int16 counts")
    sys.exit(1)
print("ok")

import sys, os; sys.modules['mpi4py'] = None; sys.path.insert(0, os.getcwd())
os.environ['OMP_NUM_THREADS'] = '2'
import numpy as np
import enspara
from enspara import tpt
assert os.path.abspath(enspara.__file__).startswith(os.getcwd()), enspara.__file__

# 3 -> 1 -> 0 (0.5 bottleneck) and 3 -> 2 -> 0 (0.4 bottleneck); source = last state, sink = state 0
nf = np.array([[0.0, 0.0, 0.0, 0.0],
               [0.5, 0.0, 0.0, 0.0],
               [0.5, 0.0, 0.0, 0.0],
               [0.0, 0.6, 0.4, 0.0]])
ref = tpt.top_path([3], [0], nf)
neg = tpt.top_path([-1], [0], nf)
print('source=[3] :', ref)
print('source=[-1]:', neg)
if neg[0][0] % 4 != 3:
    print("VIOLATION: with the source given as -1 (numpy spelling of the last state) the returned "
          "path %s does not start at the source; expected %s" % (neg[0].tolist(), ref[0].tolist()))
    sys.exit(1)

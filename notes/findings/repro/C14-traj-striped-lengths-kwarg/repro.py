import sys, os; sys.modules['mpi4py'] = None; sys.path.insert(0, os.getcwd())
os.environ['OMP_NUM_THREADS'] = '2'
# C14: load_trajectory_as_striped stripes `filenames` (and `args`) across ranks but passes the
# documented `lengths` option through unstriped, so with more than one rank every rank
# fails with ImproperlyConfigured although the serial loader accepts the same call.
import threading, traceback, warnings, logging, copy, tempfile, shutil, atexit
warnings.simplefilter('ignore'); logging.disable(logging.CRITICAL)
import numpy as np, mdtraj as md
import enspara
assert os.path.abspath(enspara.__file__).startswith(os.getcwd()), enspara.__file__
import enspara.mpi as empi
from enspara.mpi import io as mio
from enspara.util.load import load_as_concatenated

# ---------------------------------------------------------------- fake MPI world (threads)
_tls = threading.local()
class _Ops: SUM = 'SUM'; MAX = 'MAX'
class FakeComm:
    def __init__(self, n):
        self.n, self.slots, self.bar = n, [None] * n, threading.Barrier(n, timeout=30)
    def _x(self, v):
        self.slots[_tls.rank] = v; self.bar.wait(); got = list(self.slots); self.bar.wait(); return got
    def Barrier(self): self._x(None)
    barrier = Barrier
    def bcast(self, v, root=0): return copy.deepcopy(self._x(v)[int(root)])
    def Bcast(self, buf, root=0):
        got = self._x(np.array(buf, copy=True))
        if _tls.rank != int(root): buf[...] = got[int(root)]
    def allgather(self, v): return copy.deepcopy(self._x(v))
    def allreduce(self, v, op='SUM'):
        got = self._x(v); return max(got) if op == 'MAX' else sum(got[1:], got[0])
def run_world(n, fn):
    comm = FakeComm(n); saved = (empi.rank, empi.size, empi.comm, empi.mpi4py)
    empi.rank, empi.size, empi.comm, empi.mpi4py = (lambda: _tls.rank), (lambda: n), comm, _Ops
    res, err = [None] * n, [None] * n
    def tgt(r):
        _tls.rank = r
        try: res[r] = fn(r)
        except threading.BrokenBarrierError: pass
        except BaseException: err[r] = traceback.format_exc(); comm.bar.abort()
    ths = [threading.Thread(target=tgt, args=(r,)) for r in range(n)]
    [t.start() for t in ths]; [t.join() for t in ths]
    empi.rank, empi.size, empi.comm, empi.mpi4py = saved
    return res, err
# ----------------------------------------------------------------------------------------

tmp = tempfile.mkdtemp(dir=os.path.dirname(os.path.abspath(__file__)))
atexit.register(shutil.rmtree, tmp, True)
top = md.Topology(); ch = top.add_chain()
for i in range(4):
    top.add_atom('CA', md.element.carbon, top.add_residue('ALA', ch))
lengths = [3, 5, 2]
rng = np.random.default_rng(0)
fns = []
for i, l in enumerate(lengths):
    fns.append(os.path.join(tmp, 't%d.h5' % i))
    md.Trajectory(rng.normal(size=(l, 4, 3)).astype(np.float32), top).save_hdf5(fns[-1])

s_len, s_xyz = load_as_concatenated(fns, lengths=list(lengths), processes=1)
print("serial load_as_concatenated(filenames, lengths=%s): ok, xyz %s" % (lengths, s_xyz.shape))
starts = np.concatenate([[0], np.cumsum(lengths)])

failed = False
for n in (1, 2):
    for use_lengths in (False, True):
        kw = dict(lengths=list(lengths)) if use_lengths else {}
        res, err = run_world(n, lambda r: mio.load_trajectory_as_striped(fns, processes=1, **kw))
        label = "world size %d, load_trajectory_as_striped(filenames%s)" % (n, ", lengths=%s" % lengths if use_lengths else "")
        if any(err):
            failed = True
            print(label + ": FAILED on rank(s) %s: %s" % ([i for i, e in enumerate(err) if e], [e for e in err if e][0].strip().splitlines()[-1]))
            continue
        good = True
        for r, (gl, xyz) in enumerate(res):
            exp = np.concatenate([s_xyz[starts[t]:starts[t + 1]] for t in range(len(lengths))][r::n])
            good &= list(gl) == lengths and np.array_equal(xyz, exp)
        failed |= not good
        print(label + ": " + ("ok (global lengths and per-rank block equal the serial load)" if good else "WRONG"))
if failed:
    print("VIOLATION of C14: striped trajectory loading rejects the documented `lengths` option on >1 ranks")
    sys.exit(1)
print("no violation")

import sys, os; sys.modules['mpi4py'] = None; sys.path.insert(0, os.getcwd())
os.environ['OMP_NUM_THREADS'] = '2'
import numpy as np
import enspara
assert os.path.realpath(enspara.__file__).startswith(os.path.realpath(os.getcwd())), enspara.__file__
from enspara.geometry import rotamer


def reference(angles, hb, b):
    """Hysteresis state machine exactly as the property states it."""
    def basin(a):
        return [i for i in range(len(hb) - 1) if hb[i] <= a < hb[i + 1]][0]

    def inside_widened(a, s):
        lo, hi = hb[s] - b, hb[s + 1] + b          # widened basin [lo, hi] mod 360
        return hi - lo >= 360 or ((a - lo) % 360) <= (hi - lo)

    s = basin(angles[0])
    out = [s]
    for a in angles[1:]:
        if not inside_widened(a, s):
            s = basin(a)
        out.append(s)
    return np.array(out)


bad = 0
# (boundaries, buffer, angles): every buffer passes _rotamers' own range check
# 0 <= buffer < 360/n_basins, no angle is a gate value (hb +- buffer mod 360).
cases = [
    # phi boundaries; 200 is only 20 deg past the 180 barrier, far inside a 100 deg buffer
    ([0, 180, 360], 100, [10.0, 200.0]),
    # same, through the 0/360 barrier: 350 is 10 deg past it
    ([0, 180, 360], 100, [10.0, 350.0]),
    # hysteresis is lost altogether: the output is plain binning of every frame
    ([0, 180, 360], 100, [10.0, 200.0, 270.0, 10.0]),
    # psi (shifted) boundaries, upper basin [160, 360): breaks already above 80
    ([0, 160, 360], 85, [300.0, 100.0]),
    ([0, 160, 360], 120, [10.0, 170.0]),
]
for hb, b, angles in cases:
    got = rotamer._rotamers(np.array(angles), hb, b)
    exp = reference(angles, hb, b)
    ok = np.array_equal(got, exp)
    print("hb=%s buffer=%s angles=%s -> got %s, expected %s  %s"
          % (hb, b, angles, got.tolist(), exp.tolist(), "ok" if ok else "WRONG"))
    bad += not ok

# sweep: smallest integer buffer at which the result deviates
rng = np.random.default_rng(0)
for hb in ([0, 180, 360], [0, 160, 360], [0, 120, 240, 360]):
    nb = len(hb) - 1
    failing = []
    for b in range(0, int(np.ceil(360 / nb))):
        gates = {(h + s * b) % 360 for h in hb for s in (-1, 0, 1)}
        for _ in range(200):
            a = rng.uniform(0, 360, size=10)
            assert not gates & set(a.tolist())
            if not np.array_equal(rotamer._rotamers(a, hb, b), reference(list(a), hb, b)):
                failing.append(b)
                break
    print("hb=%s: accepted integer buffers with wrong output: %s"
          % (hb, ("%d..%d" % (failing[0], failing[-1])) if failing else "none"))

if bad:
    print("VIOLATION: with an accepted buffer width so large that the widened basin "
          "covers the whole circle, _rotamers changes state although the angle never "
          "left the widened basin (exit test inverted).")
    sys.exit(1)
print("no violation")

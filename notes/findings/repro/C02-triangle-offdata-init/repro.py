import sys, os; sys.modules['mpi4py'] = None; sys.path.insert(0, os.getcwd())
os.environ['OMP_NUM_THREADS'] = '2'
import warnings; warnings.simplefilter('ignore')
import logging
import numpy as np
import enspara
logging.disable(logging.CRITICAL)
assert enspara.__file__.startswith(os.getcwd()), enspara.__file__
from enspara.cluster.kcenters import kcenters

# Three frames on a line and one initial center that is NOT one of the frames
# (the project's own test_kcenters_hot_start warm-starts from such centers).
X = np.array([[-1.0], [2.8], [5.0]])
init = np.array([[0.0]])

plain = kcenters(X, 'euclidean', n_clusters=2, init_centers=init,
                 use_triangle_inequality=False)
tri = kcenters(X, 'euclidean', n_clusters=2, init_centers=init,
               use_triangle_inequality=True)

print('plain   : labels', plain.assignments, 'distances', plain.distances,
      'radius', plain.distances.max())
print('shortcut: labels', tri.assignments, 'distances', tri.distances,
      'radius', tri.distances.max())

problems = []
if not np.array_equal(plain.assignments, tri.assignments):
    problems.append('labels differ: plain %s vs shortcut %s'
                    % (plain.assignments, tri.assignments))
if not np.allclose(plain.distances, tri.distances):
    problems.append('distances differ: plain %s vs shortcut %s'
                    % (plain.distances, tri.distances))

# the shortcut's own output is not even a nearest-center assignment
cents = np.array(tri.centers)
true_d = np.abs(X - cents.T).min(axis=1)
if not np.allclose(true_d, tri.distances):
    problems.append('shortcut: frame 1 (x=2.8) is 2.2 from the new center x=5.0 but is '
                    'reported at distance %.1f from center 0' % tri.distances[1])

# and therefore the radius stop fires at different points
p2 = kcenters(X, 'euclidean', dist_cutoff=2.5, init_centers=init)
t2 = kcenters(X, 'euclidean', dist_cutoff=2.5, init_centers=init,
              use_triangle_inequality=True)
print('dist_cutoff=2.5: plain stops with', len(p2.centers), 'centers; shortcut with',
      len(t2.centers))
if len(p2.centers) != len(t2.centers):
    problems.append('dist_cutoff=2.5: plain stops at %d centers, shortcut at %d'
                    % (len(p2.centers), len(t2.centers)))

if problems:
    print('VIOLATION (C02):')
    for p in problems:
        print('  -', p)
    sys.exit(1)
print('ok')

import sys, os; sys.modules['mpi4py'] = None; sys.path.insert(0, os.getcwd())
os.environ['OMP_NUM_THREADS'] = '2'
import warnings; warnings.simplefilter('ignore')
import numpy as np
import enspara
assert os.path.realpath(enspara.__file__).startswith(os.path.realpath(os.getcwd())), enspara.__file__
from enspara.cluster.util import find_cluster_centers

# 300 frames, two labels; label 0 has its closest member at frame 140,
# label 1 has its closest member at frame 290.
n = 300
labels = np.zeros(n, dtype=int); labels[150:] = 1
dists = np.ones(n); dists[140] = 0.0; dists[290] = 0.0
expected = np.array([140, 290])

failures = []
ref = find_cluster_centers(labels, dists)
if not np.array_equal(ref, expected):
    failures.append('int64 labels: %r' % (ref,))

for dt in (np.uint8, np.int8, np.int16, np.float32):
    lab = labels.astype(dt)
    try:
        got = find_cluster_centers(lab, dists)
    except Exception as e:
        failures.append('labels dtype %s: crash %s: %s' % (np.dtype(dt).name, type(e).__name__, e))
        continue
    ok = (np.array_equal(got, expected) and np.issubdtype(got.dtype, np.integer))
    if not ok:
        detail = ''
        if np.issubdtype(got.dtype, np.integer) and not np.array_equal(got, expected):
            c = int(got[1])
            detail = ' (frame %d has label %d and distance %g; true minimum of label 1 is frame 290 with distance 0)' % (
                c, labels[c], dists[c])
        failures.append('labels dtype %s: returned %r dtype %s, expected %r%s' % (
            np.dtype(dt).name, got, got.dtype, expected, detail))

# the same through a longer int16 data set (frame index > 32767)
big = np.zeros(40000, dtype=np.int16); big[35000:] = 1
bd = np.ones(40000); bd[34000] = 0; bd[39000] = 0
try:
    got = find_cluster_centers(big, bd)
    if not np.array_equal(got, [34000, 39000]):
        failures.append('int16 labels, 40000 frames: returned %r expected [34000 39000]' % (got,))
except Exception as e:
    failures.append('int16 labels, 40000 frames: crash %s: %s' % (type(e).__name__, e))

if failures:
    print('find_cluster_centers depends on the dtype of the label array:')
    for f in failures:
        print('  -', f)
    sys.exit(1)
print('no violation')

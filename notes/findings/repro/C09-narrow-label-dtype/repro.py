import sys, os; sys.modules['mpi4py'] = None; sys.path.insert(0, os.getcwd())
os.environ['OMP_NUM_THREADS'] = '2'
import warnings; warnings.filterwarnings('ignore')
import logging; logging.disable(logging.CRITICAL)
import numpy as np
import enspara
assert enspara.__file__.startswith(os.getcwd()), enspara.__file__
from enspara.cluster.kmedoids import kmedoids
from enspara.cluster.kcenters import kcenters
from enspara.cluster import util

def euc(X, y): return np.sqrt(((X - y) ** 2).sum(1))
bad = 0

# ---- (a) labels stored as int16 (k = 4 fits easily), 40000 frames --------------------
X = np.random.RandomState(0).normal(size=(40000, 2))
r0 = kcenters(X, 'euclidean', n_clusters=4)               # consistent state
C = [int(c) for c in r0.center_indices]
print("(a) n=40000, k=4, centres", C, "labels as int16")
for kw, tag in [(dict(cluster_center_inds=C), "centres supplied"), (dict(), "centres inferred")]:
    try:
        r = kmedoids(X, 'euclidean', n_iters=1, assignments=r0.assignments.astype(np.int16),
                     distances=r0.distances, random_state=0, **kw)
        print("    %s: ok" % tag)
    except OverflowError as e:
        bad += 1
        print("    %s: VIOLATION OverflowError: %s" % (tag, e))
r = kmedoids(X, 'euclidean', n_iters=1, assignments=r0.assignments, distances=r0.distances,
             cluster_center_inds=C, random_state=0)
print("    same state with int64 labels: ok, cost %.5f -> %.5f" % (np.mean(r0.distances**2), np.mean(r.distances**2)))

# ---- (b) labels stored as uint8 (k = 3), 600 frames: silent corruption ---------------
X = np.random.RandomState(0).normal(size=(600, 2))
C = [0, 1, 2]                                              # centres = first three frames
A, D = util.assign_to_nearest_center(X, X[C], util._get_distance_method('euclidean'))
cost0 = np.mean(D ** 2)
print("(b) n=600, k=3, centres", C, "labels as uint8, start cost %.5f" % cost0)
for seed in range(6):
    r = kmedoids(X, 'euclidean', n_iters=3, assignments=A.astype(np.uint8), distances=D, random_state=seed)
    ci = [int(i) for i in r.center_indices]
    self_d = r.distances[ci]                               # a centre is at distance 0 from itself
    Dm = np.array([euc(X, X[i]) for i in ci])
    true_d = Dm[r.assignments.astype(int), np.arange(len(X))]
    claimed, actual = np.mean(r.distances ** 2), np.mean(true_d ** 2)
    flag = ""
    if not np.allclose(true_d, r.distances):
        bad += 1
        flag = "VIOLATION: reported centres are not the frames the labels/distances refer to"
        if actual > cost0: flag += "; cost w.r.t. the reported centres went UP"
    print("    seed %d: center_indices %-16s dist[centres]=%s claimed cost %.5f, cost w.r.t. reported centres %.5f  %s"
          % (seed, ci, np.round(self_d, 3), claimed, actual, flag))
sys.exit(1 if bad else 0)

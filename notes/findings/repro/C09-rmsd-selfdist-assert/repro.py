import sys, os; sys.modules['mpi4py'] = None; sys.path.insert(0, os.getcwd())
os.environ['OMP_NUM_THREADS'] = '2'
import warnings; warnings.filterwarnings('ignore')
import logging; logging.disable(logging.CRITICAL)
import numpy as np, mdtraj as md
import enspara
assert enspara.__file__.startswith(os.getcwd()), enspara.__file__
from enspara.cluster import KMedoids, KHybrid
from enspara.cluster.kmedoids import kmedoids

# 40 distinct conformations of a 500-atom structure, radius of gyration ~3.5 nm
# (an ordinary large protein), float32 coordinates in nm like every mdtraj load.
n_frames, n_atoms = 40, 500
top = md.Topology(); ch = top.add_chain()
for i in range(n_atoms):
    top.add_atom('CA', md.element.carbon, top.add_residue('ALA', ch))
rng = np.random.RandomState(0)
trj = md.Trajectory((rng.normal(size=(n_frames, n_atoms, 3)) * 2.0).astype(np.float32), top)
print("mean Rg = %.2f nm" % md.compute_rg(trj).mean())
selfd = np.array([md.rmsd(trj, trj[i])[i] for i in range(n_frames)])
print("md.rmsd(frame, same frame): max %.5f, %d of %d frames >= 0.001"
      % (selfd.max(), (selfd >= 1e-3).sum(), n_frames))

bad = 0
# (1) the k-hybrid on the same data works and its result is a consistent state
h = KHybrid('rmsd', n_clusters=8, kmedoids_updates=2, random_state=0).fit(trj)
res = h.result_
print("KHybrid ok: centers", [int(c) for c in res.center_indices],
      "cost %.6f" % np.mean(res.distances ** 2))

# (2) warm start of stand-alone k-medoids from exactly that state
try:
    r = kmedoids(trj, 'rmsd', n_iters=1, assignments=res.assignments,
                 distances=res.distances,
                 cluster_center_inds=[int(c) for c in res.center_indices],
                 random_state=0)
    print("warm start ok, cost %.6f" % np.mean(r.distances ** 2))
except AssertionError as e:
    import traceback; traceback.print_exc(limit=2)
    print("VIOLATION: warm start from the consistent k-hybrid state dies with a bare AssertionError")
    bad += 1

# (3) cold start, several seeds
n_fail = 0
for seed in range(10):
    try:
        kmedoids(trj, 'rmsd', n_clusters=8, n_iters=1, random_state=seed)
    except AssertionError:
        n_fail += 1
print("cold start kmedoids(trj, 'rmsd', n_clusters=8): AssertionError for %d of 10 seeds" % n_fail)
if n_fail:
    print("VIOLATION: stand-alone k-medoids aborts instead of returning a clustering")
    bad += 1
sys.exit(1 if bad else 0)

"""Triage (never part of a check): kcenters(mpi_mode=True, init_centers=...) hangs when a rank
holds no frame of one initial centre.  Run from a scratch worktree root with the built extensions:
    /venv/bin/python /verif/notes/triage_F20.py
Uses the thread-based fake communicator of seeded/C14a/demo.py."""
import sys, os, logging, warnings
sys.modules['mpi4py'] = None
sys.path.insert(0, os.getcwd())
warnings.filterwarnings('ignore'); logging.disable(logging.CRITICAL)
import numpy as np, threading, time, copy
src = open('/verif/seeded/C14a/demo.py').read()
start = src.index('# ---------------------------------------------------------------- fake MPI')
end = src.index('# ------------------------------------------------------------------ checks')
import enspara
from enspara import mpi
from enspara.cluster import kcenters
exec(src[start:end])
_FC = FakeComm
class FakeComm(_FC):
    def __init__(self, n, js=0): super().__init__(n, js, timeout=5)
def euclid(X, y): return np.sqrt(np.square(X - y).sum(axis=1))
init = np.array([[0., 0], [10, 10]])
def world(X0, X1):
    def fn(r):
        return kcenters.kcenters([X0, X1][r], euclid, n_clusters=3, init_centers=init, mpi_mode=True).center_indices
    try:
        return run_world(2, fn)
    except BaseException as e:
        return 'FAILED: %s %s' % (type(e).__name__, e)
X0 = np.array([[0., 0], [10, 10], [0.5, 0], [9, 10], [3, 3]])
print('control (both ranks see both labels):', world(X0, np.array([[0.1, 0.1], [9.5, 9.5], [0, 0.3], [1, 1]])))
print('rank 1 sees only label 0          :', world(X0, np.array([[0.1, 0.1], [0.2, 0], [0, 0.3], [1, 1]])))

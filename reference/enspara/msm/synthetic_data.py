# Author: Gregory R. Bowman <gregoryrbowman@gmail.com>
# Contributors:
# Copyright (c) 2016, Washington University in St. Louis
# All rights reserved.
# Unauthorized copying of this file, via any medium is strictly prohibited
# Proprietary and confidential

from __future__ import print_function, division, absolute_import

import numpy as np
import scipy
import scipy.sparse


def synthetic_trajectory(T, start_state, n_steps):
    """Simulate a single trajectory using kinetic Monte Carlo.

    Parameters
    ----------
    T : array, shape=(n_states, n_states)
        A row-normalized transition probability matrix.
    start_state : int
        State to start the trajectory from.
    n_steps : int
        Number of steps in the trajectory. This includes the starting state,
        so n_steps=2 would result in a trajectory consisting of the starting
        state and one additional state.

    Returns
    -------
    traj : array, shape=(n_steps, )
        A 1-D array containing a sequence of state indices (integers).
    """
    traj = -1*np.ones(n_steps, dtype=int)
    traj[0] = start_state
    states = T.shape[0]
    rng = np.random.default_rng()
    if scipy.sparse.isspmatrix(T):
        for i in range(n_steps-1):
            p = T[traj[i], :].toarray()[0]
            traj[i + 1] = rng.choice(states, 1, p=p)
    else:
        for i in range(n_steps - 1):
            p = T[traj[i], :]
            traj[i+1] = rng.choice(states, 1, p=p)
    return traj


def synthetic_ensemble(T, init_pops, n_steps, observable_per_state=None):
    """Simulate the time evolution of an ensemble.

    The time that elapses for each step is the lag time of the input transition
    probability matrix.

    If observable_per_state is specified, this is a 1-D array containing the
    population-weighted average observable as a function of time. Otherwise,
    this is a 2-D array where each row contains the populations of each state
    as a function of time.

    Parameters
    ----------
    T : ndarray, shape=(n_states, n_states)
        A row-normalized transition probability matrix.
    init_pops : array, shape=(n_states, )
        The initial probabilities of every state.
    n_steps : int
        Number of steps to advance the ensemble. This includes the starting
        populations, so n_steps=2 would result in a trajectory consisting of
        the starting state and one step forward in time.
    observable_per_state : array, shape=(n_states, ), default=None
        An array of floats representing some observable for each state.

    Returns
    -------
    out : array, shape=(n_steps, ...)
        An array representing the time evolution of an ensemble. If
        observable_per_state is specified, this is a 1-D array containing the
        population-weighted average observable as a function of time.
        Otherwise, this is a 2-D array where each row contains the populations
        of each state as a function of time.
    """

    # turn transitions probability matrix into linear operator
    if scipy.sparse.issparse(T):
        T_op = scipy.sparse.linalg.aslinearoperator(T.tocsr())
    else:
        T_op = scipy.sparse.linalg.aslinearoperator(T)

    p = init_pops.copy()
    if observable_per_state is not None:
        observations = [p.dot(observable_per_state)]
        for i in range(n_steps-1):
            p = T_op.rmatvec(p)
            observations.append(p.dot(observable_per_state))
    else:
        observations = [p]
        for i in range(n_steps-1):
            p = T_op.rmatvec(p)
            observations.append(p)

    observations = np.array(observations)

    return p, observations

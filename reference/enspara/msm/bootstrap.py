import ctypes
import itertools
import multiprocessing as mp
import numpy as np

from . import msm
from .. import exception


def bootstrap(func, data, n_trials, n_procs=1, **kwargs):
    """Do a bootstrap sampling of `func` on `data`.

    Parameters
    ----------
    func : callable
        A function that can be called on `data` to compute the
        bootstrapped value. Should return the relevant values.
    data : object
        Data to run `func` on.
    n_trials : int
        Number of bootstrapping trials to run.
    n_procs : int
        The number of parallel bootstrappings to run.

    Notes
    -----
    Additional arguments as `kwargs` are passed in to `func` as
    parameters.
    """

    # make a shared data array of ints (does not support anything else)
    shared_data = _make_shared_array(data, ctypes.c_int)
    shared_data_shape = data.shape
    # generate random sample indices
    rand_sampling_iis = [
        np.random.choice(np.arange(data.shape[0]), data.shape[0])
        for i in np.arange(n_trials)]
    strap_data = list(
        zip(
            itertools.repeat(func), rand_sampling_iis,
            itertools.repeat(kwargs)))
    # map
    with mp.Pool(
            processes=n_procs, initializer=_init,
            initargs=(shared_data, shared_data_shape)) as p:
        straps = p.map(_single_strap, strap_data)
        p.terminate()
    return straps


def MSMs(assignments, lag_time, method, n_trials, max_n_states=None,
         n_procs=1, chunk_by=None, **kwargs):
    """bootstraps msms"""
    if chunk_by is not None:
        assignments = _chunk_assignments(assignments, chunk_by)
    msms = bootstrap(
        msm.MSM.from_assignments, assignments, lag_time=lag_time,
        method=method, n_trials=n_trials, max_n_states=max_n_states,
        n_procs=n_procs, **kwargs)
    return msms


def _chunk_assignments(assignments, chunk_by):
    pass


def _make_shared_array(in_array, dtype):
    """Generates a shared array for multiprocessing"""
    if not np.issubdtype(in_array.dtype, np.integer):
        raise exception.DataInvalid(
            "Given array (type '%s') is an integral type (e.g. int32). "
            "Mutual information calculations require discretized state "
            "trajectories." % in_array.dtype)

    arr = mp.Array(dtype, in_array.size, lock=False)
    arr[:] = in_array.flatten()

    return arr


def _single_strap(strap_data):
    # perform a single strap
    strap_func, rand_sampling_iis, kwargs = strap_data
    return strap_func(bootstrap_data[rand_sampling_iis], **kwargs)


def _init(bootstrap_data_, shape_data):
    # define bootstrap_data as a global variable
    global bootstrap_data
    bootstrap_data = np.frombuffer(
        bootstrap_data_, dtype=np.int32).reshape(shape_data)
    return

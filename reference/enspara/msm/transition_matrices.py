# Author: Gregory R. Bowman <gregoryrbowman@gmail.com>
# Contributors:
# Copyright (c) 2016, Washington University in St. Louis
# All rights reserved.
# Unauthorized copying of this file, via any medium is strictly prohibited
# Proprietary and confidential

from __future__ import print_function, division, absolute_import

import logging
import csv
import numbers

import numpy as np
import scipy
import scipy.sparse
import scipy.sparse.linalg
from scipy.sparse.csgraph import connected_components

from .. import exception

logger = logging.getLogger(__name__)
logger.setLevel(logging.INFO)


class TrimMapping:
    """The TrimMapping maps state ids before and after ergodic trimming.

    It stores the injective mapping of trimmed state ids to original
    state ids, as well as the inverse, in its two properties.

    Attributes
    ----------
    to_original : dict
        Dictionary mapping post-trim state ids to original state ids.
    to_mapped : dict
        Dictionary mapping original state ids to post-trim state ids.
    """

    __slots__ = ['to_original']

    def __init__(self, transformations=None):
        '''Construct a new TrimMapping.

        Parameters
        ----------
        transformations : list, optional
            A list of 2-tuples, each of the form
            (original_state_id, trimmed_state_id).
        '''

        if transformations:
            self.to_original = {t: o for o, t in transformations}

    @classmethod
    def load(cls, filename):
        with open(filename, 'r') as f:
            return cls.read(f)

    @classmethod
    def read(cls, file):
        reader = csv.reader(file)

        headers = next(reader)
        assert headers == ['original', 'mapped']

        column = {h: [] for h in headers}
        for row in reader:
            for h, v in zip(headers, row):
                column[h].append(int(v))

        return TrimMapping(zip(column['original'], column['mapped']))

    @property
    def to_mapped(self):
        return {v: k for k, v in self.to_original.items()}

    @to_mapped.setter
    def to_mapped(self, value):
        self.to_original = {v: k for k, v in value.items()}

    def save(self, filename):
        with open(filename, 'w') as f:
            self.write(f)

    def write(self, file):
        writer = csv.writer(file)

        writer.writerow(['original', 'mapped'])
        writer.writerows(sorted(self.to_mapped.items(),
                                key=lambda x: x[0]))

    def __eq__(self, other):

        if self is other:
            return True
        elif hasattr(other, 'to_original') and hasattr(other, 'to_mapped'):
            return (self.to_original == other.to_original) and \
                   (self.to_mapped == other.to_mapped)
        else:
            try:
                return TrimMapping(other) == self
            except:
                return False

    def __repr__(self):
        return str(self)

    def __str__(self):
        return "to_original:"+str(self.to_original)


def assigns_to_counts(
        assigns, lag_time, max_n_states=None, sliding_window=True):
    """Count transitions between states in a single trajectory.

    Parameters
    ----------
    assigns : array, shape=(traj_len, )
        A 2-D array where each row is a trajectory consisting of a
        sequence of state indices.
    lag_time : int
        The lag time (i.e. observation interval) for counting
        transitions.
    max_n_states : int, default=None
        The number of states. This is useful for controlling the
        dimensions of the transition count matrix in cases where the
        input trajectory does not necessarily visit every state.
    sliding_window : bool, default=True
        Whether to use a sliding window for counting transitions or to
        take every lag_time'th state.

    Returns
    -------
    C :  array, shape=(n_states, n_states)
        A transition count matrix.
    """

    if not isinstance(lag_time, numbers.Integral):
        raise exception.DataInvalid(
            "The lag time must be an integer. Got %s type %s." %
            lag_time, type(lag_time))
    if lag_time < 1:
        raise exception.DataInvalid(
            "Lag times must be be strictly greater than 0. Got '%s'." %
            lag_time)
    # -lag_time is used as a slice bound; it wraps around for unsigned
    # fixed-width integers (numpy scalars are numbers.Integral, too)
    lag_time = int(lag_time)

    # if it's 1d, later stuff will fail
    if len(assigns.shape) == 1:
        raise exception.DataInvalid(
            'The given assignments array has 1-dimensional shape %s. '
            'Two dimensional shapes = (n_trj, n_frames) are expected. '
            'If this is really what you want, try using '
            'assignments.reshape(1, -1) to create a single-row 2d array.')

    assigns = np.array([a[np.where(a != -1)] for a in assigns], dtype='O')

    if max_n_states is None:
        # add in a Python integer: assignments may be stored in a narrow
        # dtype (int8, uint8, ...) whose largest value is a state id
        max_n_states = int(np.concatenate(assigns).max()) + 1

    transitions = [
        _transitions_helper(
            assign, lag_time=lag_time, sliding_window=sliding_window)
        for assign in assigns]
    # generate sparse matrix
    mat_coords = np.hstack(transitions)
    mat_data = np.ones(mat_coords.shape[1], dtype=int)
    C = scipy.sparse.coo_matrix(
        (mat_data, mat_coords), shape=(max_n_states, max_n_states))
    return C


def eigenspectrum(T, n_eigs=None, left=True, maxiter=100000, tol=1E-30):
    """Compute the eigenvectors and eigenvalues of a transition
    probability matrix.

    Parameters
    ----------
    T : array, shape=(n_states, n_states)
        A transition probability matrix.
    n_eigs : int, optional
        The number of eigenvalues and eigenvectors to compute. If not
        speficied, all are computed.
    left: bool, default=False
        Compute the left eigenvalues rather than the right eigenvalues.
    maxiter : int, default=100000
        Limit the maximum number of iterations used by the sparse
        eigenvalue solver. (Used only for sparse matrices.)
    tol : float, default=1e-30
        Relative accuracy for eigenvalues (stopping criterion). (Used
        only for sparse matrices.)

    Returns
    -------
    vals, vecs : 2-tuple, (ndarray, ndarray)
        Eigenvalues and eigenvectors for this system, respectively.
    """

    if n_eigs is None:
        n_eigs = T.shape[0]
    elif n_eigs < 2:
        raise ValueError('n_eig must be greater than or equal to 2')

    if n_eigs > T.shape[0]:
        logger.warning(
            ("Trying to compute {n} eigenvalues from an {s} x {s} matrix " +
             "yields only {s} eigenvalues.").format(n=n_eigs, s=T.shape[0]))

    # left eigenvectors input processing (?)
    T = T.T if left else T

    # performance improvement for small arrays; also prevents erroring
    # out when ndim - 2 <= n_eigs and T is sparse (ARPACK only delivers
    # k < N - 1 eigenpairs, whatever the size of the matrix).
    if scipy.sparse.issparse(T) and \
            (T.shape[0] < 1000 or n_eigs >= T.shape[0] - 1):
        T = T.toarray()

    if scipy.sparse.issparse(T):
        # fixed start vector: ARPACK's default one is drawn at random, which
        # makes eigenvector signs and the last bits differ from call to call
        v0 = np.random.RandomState(0).uniform(-1, 1, T.shape[0])
        try:
            vals, vecs = scipy.sparse.linalg.eigs(
                T.tocsr(), n_eigs, which="LR", maxiter=maxiter, tol=tol,
                v0=v0)
        except scipy.sparse.linalg.ArpackNoConvergence:
            # eigenvalues clustered near 1 (slowly mixing chains) can keep the
            # Arnoldi iteration from converging; the dense solver always works
            logger.warning(
                "ARPACK did not converge; falling back to the dense "
                "eigensolver for the %s x %s matrix.", T.shape[0], T.shape[1])
            vals, vecs = scipy.linalg.eig(T.toarray())
    else:
        vals, vecs = scipy.linalg.eig(T)

    order = np.argsort(-np.real(vals))
    vals = vals[order]
    vecs = vecs[:, order]

    # normalize the first eigenvector to obtain the eq populations
    vecs[:, 0] /= vecs[:, 0].sum()

    vals = np.real(vals[:n_eigs])
    vecs = np.real(vecs[:, :n_eigs])

    return vals, vecs


def trim_disconnected(counts, threshold=1, renumber_states=True):
    """Trim disconnected states from a counts matrix.

    Parameters
    ----------
    counts : array, shape=(n_states, n_states)
        A 2-D array in which the position [i, j] is the number of times
        the transition i->j was observed.
    threshold : int, default=1
        The number of transitions in and out of a state that are
        required to count the state as connected.
    renumber_states : bool, default=False
        Should states be renumbered, reassigning new, contiguous state
        indices after removing disconnected states.

    Returns
    -------
    mapping:  TrimMapping
        The mapping between original and renumbered states (if states
        were renumbered).
    """

    out_type = type(counts)
    if scipy.sparse.issparse(counts):
        counts = counts.toarray()

    thresholded_counts = np.array(counts, copy=True)
    thresholded_counts[counts < threshold] = 0

    n_subgraphs, labels = connected_components(thresholded_counts,
                                               connection="strong",
                                               directed=True)

    pops = counts.sum(axis=1)

    subgraph_pops = [np.sum(pops[labels == i])
                     for i in range(n_subgraphs)]
    maxpop_subgraph = np.argmax(subgraph_pops)

    keep_states = np.where(labels == maxpop_subgraph)[0]

    if renumber_states:
        new_states = np.arange(len(keep_states))

        trimmed_counts = np.zeros((len(keep_states), len(keep_states)),
                                  dtype=counts.dtype)

        trimmed_counts[np.ix_(new_states, new_states)] = \
            counts[np.ix_(keep_states, keep_states)]

        mapping = TrimMapping(zip(keep_states,
                              range(len(trimmed_counts))))

    else:
        trim_states = np.where(labels != maxpop_subgraph)
        trimmed_counts = np.array(counts, copy=True)

        trimmed_counts[trim_states, :] = 0
        trimmed_counts[:, trim_states] = 0

        mapping = TrimMapping(zip(keep_states, keep_states))

    if type(trimmed_counts) is not out_type:
        trimmed_counts = out_type(trimmed_counts)

    return mapping, trimmed_counts


def eq_probs(T, maxiter=100000, tol=1E-30):
    val, vec = eigenspectrum(T, n_eigs=3, left=True, maxiter=maxiter, tol=tol)

    return vec[:, 0]


def _transitions_helper(
        assigns_1d, lag_time=1, sliding_window=True):
    # TODO: check trajectory is 1d array

    if sliding_window:
        start_states = assigns_1d[:-lag_time:1]
        end_states = assigns_1d[lag_time::1]
    else:
        start_states = assigns_1d[:-lag_time:lag_time]
        end_states = assigns_1d[lag_time::lag_time]
    transitions = np.row_stack((start_states, end_states))
    return transitions

"""The builders submodule is where all the methods that fit a transition
probability matrix and/or equilibrium probability distributions of an
MSM live. All the builders (i.e. anything in this module not prefixed
with an underscore) should be safe to pass to an MSM object as its
builder.
"""

import logging
import warnings

import numpy as np
import scipy.sparse
import scipy.sparse.linalg

from enspara import exception

from .transition_matrices import eq_probs
from .libmsm import _mle_prinz_dense

logger = logging.getLogger(__name__)
logger.setLevel(logging.INFO)


def mle(C, prior_counts=None, calculate_eq_probs=True):
    """Transform a counts matrix to a probability matrix using
    maximum-liklihood estimation (prinz) method.

    Parameters
    ----------
    C : array, shape=(n_states, n_states)
        The matrix to symmetrize
    prior_counts: int or array, shape=(n_states, n_states), default=None
        Number or matrix of pseudocounts to add to the transition counts
        matrix.
    calculate_eq_probs: bool, default=True
        Compute the equilibrium probability distribution of the output
        matrix T. This flag is provided for compatibility with other
        builders only, as it has no effect in MLE (and, in fact, emits a
        warning).

    Returns
    -------
    C : array, shape=(n_states, n_states)
        Transition counts matrix after the addition of pseudocounts.
    T : array, shape=(n_states, n_states)
        Transition probabilities matrix derived from `C`.
    eq_probs : array, shape=(n_states)
        Equilibrium probability distribution of `T`.

    See Also
    --------
    msmbuilder.msm.MarkovStateModel and
    msmbuilder._markovstatemodel._transmat_mle_prinz

    References
    ----------
    [1] Prinz, Jan-Hendrik, et al. "Markov models of molecular kinetics:
        Generation and validation." J Chem. Phys. 134.17 (2011): 174105.
    """

    C = _apply_prior_counts(C, prior_counts)

    sparsetype = np.array
    if scipy.sparse.issparse(C):
        sparsetype = type(C)
        C = C.toarray()

    equilibrium = None
    if not calculate_eq_probs:
        warnings.warn('MLE method cannot suppress calculation of '
                      'equilibrium probabilities, since they are calculated '
                      'together.', category=RuntimeWarning)
        T, _ = _prinz_mle_py(C)
    else:
        T, equilibrium = _prinz_mle_py(C)

    C = sparsetype(C)
    T = sparsetype(T)

    return C, T, equilibrium


def transpose(C, prior_counts=None, calculate_eq_probs=True):
    """Transform a counts matrix to a probability matrix using the
    transpose method.

    Parameters
    ----------
    C : array, shape=(n_states, n_states)
        The matrix to symmetrize
    calculate_eq_probs: bool, default=True
        Compute the equilibrium probability distribution of the output
        matrix T. For transpose, this computation is cheap, but the flag
        is still supported for compatibility purposes.

    Returns
    -------
    C : array, shape=(n_states, n_states)
        Transition counts matrix after symmetrization.
    T : array, shape=(n_states, n_states)
        Transition probabilities matrix derived from `C`.
    eq_probs : array, shape=(n_states)
        Equilibrium probability distribution of `T`.
    """

    C = _apply_prior_counts(C, prior_counts)

    C_sym = C + C.T
    probs = _row_normalize(C_sym)

    # C + C.T changes the type of sparse matrices, so recast here.
    if type(C) is not type(probs):
        probs = type(C)(probs)
        C_sym = type(C)(C_sym)

    equilibrium = None
    if calculate_eq_probs:
        # (the axis-less sum of a bsr_matrix with several blocks raises)
        row_sums = np.array(C_sym.sum(axis=1)).flatten()
        equilibrium = row_sums / row_sums.sum()

    # (lil/dok matrices of integers keep their dtype under `/ 2`)
    return C_sym * 0.5, probs, equilibrium


def normalize(C, prior_counts=None, calculate_eq_probs=True):
    """Transform a transition counts matrix to a transition probability
    matrix by row-normalizing it. This does not guarantee ergodicity or
    enforce equilibrium.

    Parameters
    ----------
    C : array, shape=(n_states, n_states)
        The matrix to normalize.
    calculate_eq_probs: bool, default=True
        Compute the equilibrium probability distribution of the output
        matrix T. This is useful because calculating the eq probs is
        expensive.

    Returns
    -------
    C : array, shape=(n_states, n_states)
        Transition counts matrix after symmetrization.
    T : array, shape=(n_states, n_states)
        Transition probabilities matrix derived from `C`.
    eq_probs : array, shape=(n_states)
        Equilibrium probability distribution of `T`.
    """

    C = _apply_prior_counts(C, prior_counts)

    probs = _row_normalize(C)

    equilibrium = None
    if calculate_eq_probs:
        equilibrium = eq_probs(probs)

    return C, probs, equilibrium


def _apply_prior_counts(C, prior_counts):
    """Apply prior_counts to counts matrix C
    """

    if prior_counts is not None:
        try:
            C = C + prior_counts
        except NotImplementedError:
            C = np.array(C.todense()) + prior_counts
        if isinstance(C, np.matrix):
            # scipy returns np.matrix for `sparse matrix + ndarray`
            C = np.asarray(C)

    return C


def _row_normalize(C):
    """Normalize every row of a transition count matrix to obtain a
    transition probability matrix.

    Parameters
    ----------
    C : array, shape=(n_states, n_states)
        A transition count matrix.

    Returns
    -------
    T : array, shape=(n_states, n_states)
        A row-normalized transition probability matrix.
    """

    n_states = C.shape[0]

    if scipy.sparse.isspmatrix(C):
        # (asfptype() would take int8/int16 counts to float32 only)
        C_csr = scipy.sparse.csr_matrix(C).astype(np.float64)
        weights = np.asarray(C_csr.sum(axis=1)).flatten()
        inv_weights = np.zeros(n_states)
        inv_weights[weights > 0] = 1.0 / weights[weights > 0]
        inv_weights = scipy.sparse.dia_matrix((inv_weights, 0),
                                              C_csr.shape).tocsr()
        T = inv_weights.dot(C_csr)
        T = type(C)(T)  # recast T to the input type
    else:
        # (row sums of float32/float16 counts would carry that precision)
        C = np.array(C, dtype=np.float64)
        weights = np.asarray(C.sum(axis=1)).flatten()
        inv_weights = np.zeros(n_states)
        inv_weights[weights > 0] = 1.0 / weights[weights > 0]
        T = C * inv_weights.reshape((n_states, 1))

    return T


def _prinz_mle(C, *args, **kwargs):

    if scipy.sparse.issparse(C):
        assert False
    else:
        return _mle_prinz_dense(
            np.asarray(C, dtype=np.float64), *args, **kwargs)


def _prinz_mle_py(C, tol=1e-10, max_iter=10**5):
    """Fit a transition probability using the detailed balance-enforced
    maximum-liklihood estimation (Prinz) method.

    This method is not numpy vectorized or written in C and is very
    slow for large counts matrices.

    Parameters
    ----------
    C : array, shape=(n_states, n_states)
        The matrix to symmetrize
    tol: float, default=1e-10
        The log-likelihood change at which the iterative method is
        considered to have been converged
    max_iter: int, default=10**5
        The maximum number of allowed iterations. If this this number of
        iterations is reached, calculation will stop and a warning will
        be emitted.

    Returns
    -------
    T : array, shape=(n_states, n_states)
        Transition probabilities matrix derived from `C`.

    References
    ----------
    [1] Prinz, Jan-Hendrik, et al. "Markov models of molecular kinetics:
        Generation and validation." J Chem. Phys. 134.17 (2011): 174105.
    """
    C = C.copy().astype(float)
    X = C + C.T

    X_rs = X.sum(axis=1)
    C_rs = C.sum(axis=1)

    assert np.all(X_rs > 0)
    assert np.all(C_rs > 0)

    oldlogl = 0
    for n_iter in range(max_iter):
        logl = 0

        # re-derive the running row sums from X in every sweep, so that
        # the rounding of the incremental updates cannot accumulate
        X_rs = X.sum(axis=1)

        for i in range(len(C)):
            tmp = X[i,i];
            denom = C_rs[i] - C[i, i];
            if (denom > 0):
                X[i, i] = C[i, i] * (X_rs[i] - X[i, i]) / denom;

            X_rs[i] = X_rs[i] + (X[i, i] - tmp);

            if (X[i, i] > 0):
                logl += C[i,i] * np.log(X[i, i] / X_rs[i]);

        for i in range(len(C) - 1):
            for j in range(i+1, len(C)):

                a = (C_rs[i] - C[i, j]) + (C_rs[j] - C[j, i])
                b = C_rs[i] * (X_rs[j] - X[i, j]) +\
                    C_rs[j] * (X_rs[i] - X[i, j]) -\
                    (C[i, j] + C[j, i]) * (X_rs[i] + X_rs[j] - 2*X[i, j])

                c = -(C[i, j] + C[j, i]) *\
                     (X_rs[i] - X[i, j]) *\
                     (X_rs[j] - X[i,j])

                # c <= 0 holds up to rounding in the running row sums
                assert c <= 1e-8 * (C[i, j] + C[j, i]) * X_rs[i] * X_rs[j]

#                 /* the new value */
                if (a == 0):
                    v = X[j, i];
                else:
                    # positive root; for b > 0 in the form that does not
                    # subtract two nearly equal numbers
                    disc = np.sqrt((b**2) - (4*a*c))
                    if b > 0:
                        v = (-2*c) / (b + disc)
                    else:
                        v = (-b + disc) / (2*a)

#                 /* update the row sums */
                X_rs[i] = X_rs[i] + (v - X[i, j])
                X_rs[j] = X_rs[j] + (v - X[j, i])

#                 /* add in the new value */
                X[i, j] = v
                X[j, i] = v

                if (X[i, j] > 0):
                    logl += (
                        ((C[i,j] * np.log(X[i, j]) / X_rs[i])) +
                        ((C[j,i] * np.log(X[j, i]) / X_rs[j])))


        if abs(logl - oldlogl) > tol:
            oldlogl = logl
        else:
            break

    if n_iter == max_iter - 1:
        warnings.warn(
            "Prinz MLE did not converge after %s iterations." % n_iter,
            exception.ConvergenceWarning)

    T = X / X.sum(axis=-1).reshape(len(X), 1)
    pi = X_rs / X_rs.sum()[..., None]

    assert np.allclose(T.sum(axis=1), 1)
    assert np.isclose(np.sum(pi), 1)

    return T, pi

"""MSM-building and core analysis routines.
"""

from .msm import *
from .timescales import implied_timescales, eigenspectrum

from . import builders
from . import bace
from . import synthetic_data
from . import timescales
from . import transition_matrices

import logging

import numpy as np
from scipy.sparse.linalg import ArpackNoConvergence

from .transition_matrices import assigns_to_counts, eigenspectrum, \
    trim_disconnected

logger = logging.getLogger(__name__)
logger.setLevel(logging.INFO)


def calc_imp_times(assigns, lag_time, n_states, n_times, method,
                   sliding_window, trim):
    """Embarassingly parallel part of the implied timescales plotting
    system. This function function computes an individual eigenspectrum
    for a specific lag time.
    """

    C = assigns_to_counts(
        assigns,
        max_n_states=n_states,
        lag_time=lag_time,
        sliding_window=sliding_window)

    if trim:
        mapping, C = trim_disconnected(C)

    _, T, _ = method(C)

    n_times += 1  # +1 accounts for eq pops

    try:
        e_vals, e_vecs = eigenspectrum(T, n_eigs=n_times)
    except ArpackNoConvergence:
        logger.error("ArpackNoConvergence for lag time %s frames", lag_time)
        raise

    imp_times = -lag_time / np.log(e_vals[1:])

    # a trimmed model can have fewer states than eigenvalues were asked for;
    # report the timescales that do not exist as nan (rows of equal length)
    n_missing = (n_times - 1) - len(imp_times)
    if n_missing > 0:
        imp_times = np.concatenate([imp_times, np.full(n_missing, np.nan)])

    return imp_times


def implied_timescales(
        assigns, lag_times, method, n_times=None,
        sliding_window=True, trim=False):
    """Calculate the implied timescales across a range of lag times.

    Parameters
    ----------
    assigns : array, shape=(traj_len, )
        A 2-D array where each row is a trajectory consisting of a
        sequence of state indices.
    lag_times : list
        The lag times (i.e. observation intervals) for counting
        transitions. An eigenspectrum is calculated for each lag time in
        the list.
    method : function(C) -> C, T, p
        The function used to construct a transition probability matrix
        from assignments. Given a transition counts matrix, returns a
        symmetrized transition counts matrix, a transition probability
        matrix, and an equilibrium probability distribution.
    n_times : int, optional
        the number of implied timescales to calculate for each
        lag_time. If not specified, 10% of the number of states is used.
    trim : bool, default=False
        ignore states without transitions both in and out.
    sliding_window : bool, default=True
        Whether to use a sliding window for counting transitions or to
        take every lag_time'th state.

    Returns
    -------
    implied_times_list :  array, shape=(len(lag_times), n_times)
        A 2d array containing the eigenspectrum of each chosen lag time
        as a row.
    """

    # n_times=None -> 10% number of states
    n_states = assigns.max() + 1

    if n_times is None:
        n_times = int(np.floor(n_states / 10.0)) + 1
    if n_times > n_states - 1:  # -1 accounts for eq pops
        n_times = n_states - 1

    implied_times_list = []
    for t in lag_times:
        tscale = calc_imp_times(assigns, t, n_states, n_times,
                                method, sliding_window, trim)

        implied_times_list.append(tscale)

    return np.array(implied_times_list)

import warnings
import numpy as np

from enspara import exception

cimport cython
cimport numpy as np

cdef extern from "math.h" nogil:
    double sqrt(double x)
    double log10(double x)

@cython.boundscheck(False) # turn off bounds-checking for entire function
@cython.wraparound(False)  # turn off negative index wrapping for entire function
def _mle_prinz_dense(
        np.ndarray[np.float64_t, ndim=2] C,
        double tol=1e-10,
        long max_iter=10**5):
    cdef int n_states = len(C)
    cdef np.ndarray[np.float64_t, ndim=2] X = C + C.T

    cdef np.ndarray[np.float64_t, ndim=1] X_rs = X.sum(axis=1)
    cdef np.ndarray[np.float64_t, ndim=1] C_rs = C.sum(axis=1)

    cdef double logl, oldlogl = 0
    cdef long n_iter = 0

    assert np.all(X_rs > 0)
    assert np.all(C_rs > 0)

    cdef long i, j = 0
    cdef double tmp, a, b, c, v, disc, denom = 0

    for n_iter in range(max_iter):
        logl = 0

        # re-derive the running row sums from X in every sweep, so that
        # the rounding of the incremental updates cannot accumulate
        X_rs = X.sum(axis=1)

        for i in range(n_states):
            tmp = X[i,i];
            denom = C_rs[i] - C[i, i];
            if (denom > 0):
                X[i, i] = C[i, i] * (X_rs[i] - X[i, i]) / denom;

            X_rs[i] = X_rs[i] + (X[i, i] - tmp);

            if (X[i, i] > 0):
                logl += C[i,i] * log10(X[i, i] / X_rs[i]);

        for i in range(n_states - 1):
            for j in range(i+1, n_states):

                a = (C_rs[i] - C[i, j]) + (C_rs[j] - C[j, i])
                b = C_rs[i] * (X_rs[j] - X[i, j]) +\
                    C_rs[j] * (X_rs[i] - X[i, j]) -\
                    (C[i, j] + C[j, i]) * (X_rs[i] + X_rs[j] - 2*X[i, j])

                c = -(C[i, j] + C[j, i]) *\
                     (X_rs[i] - X[i, j]) *\
                     (X_rs[j] - X[i,j])

                # c <= 0 holds up to rounding in the running row sums
                assert c <= 1e-8 * (C[i, j] + C[j, i]) * X_rs[i] * X_rs[j]

#                 /* the new value */
                if (a == 0):
                    v = X[j, i];
                else:
                    # positive root; for b > 0 in the form that does not
                    # subtract two nearly equal numbers
                    disc = sqrt((b*b) - (4*a*c))
                    if b > 0:
                        v = (-2*c) / (b + disc)
                    else:
                        v = (-b + disc) / (2*a)

#                 /* update the row sums */
                X_rs[i] = X_rs[i] + (v - X[i, j])
                X_rs[j] = X_rs[j] + (v - X[j, i])

#                 /* add in the new value */
                X[i, j] = v
                X[j, i] = v

                if (X[i, j] > 0):
                    logl += (
                        ((C[i,j] * log10(X[i, j]) / X_rs[i])) +
                        ((C[j,i] * log10(X[j, i]) / X_rs[j])))


        if abs(logl - oldlogl) > tol:
            oldlogl = logl
        else:
            break

    if n_iter == max_iter - 1:
        warnings.warn(
            "Prinz MLE did not converge after %s iterations." % n_iter,
            exception.ConvergenceWarning)

    T = X / X.sum(axis=-1).reshape(len(X), 1)
    pi = X_rs / X_rs.sum()

    assert np.allclose(T.sum(axis=1), 1, atol=1e-16), T.sum(axis=1)
    assert np.sum(pi) - 1 < 1e-14

    return T, pi

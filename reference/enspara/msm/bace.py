"""An implementation of the Baysean Agglomerative Clustering Engine.
"""

import logging
import functools
import multiprocessing

import numpy as np

import scipy
import scipy.io
import scipy.sparse

from enspara import exception

logger = logging.getLogger(__name__)


def getInds(c, stateInds, chunkSize, updateSingleState=None):
    indices = []
    for s in stateInds:
        if scipy.sparse.issparse(c):
            dest = np.where(c[s, :].toarray()[0] > 1)[0]
        else:
            dest = np.where(c[s, :] > 1)[0]
        if updateSingleState is not None:
            dest = dest[np.where(dest != updateSingleState)[0]]
        else:
            dest = dest[np.where(dest > s)[0]]
        if dest.shape[0] == 0:
            continue
        elif dest.shape[0] < chunkSize:
            indices.append((s, dest))
        else:
            i = 0
            while dest.shape[0] > i:
                if i+chunkSize > dest.shape[0]:
                    indices.append((s, dest[i:]))
                else:
                    indices.append((s, dest[i:i+chunkSize]))
                i += chunkSize
    return indices


def bace(c, n_macrostates, chunk_size=100, n_procs=1):
    """Perform baysean agglomerative coarse-graining procedure (BACE)

    If you use this code, you should read and cite [1]_.

    Parameters
    ----------
    c : array-like, shape=(n_states, n_states)
        Transition counts matrix to perform agglomeration on
    n_macrostates : int
        Number of macrostates to coarse-grain into.
    n_procs : int, default=1
        Number of parallel processes to use.
    chunk_size : int, default=100

    Returns
    -------
    bayes_factors : dict
        Mapping from number of macrostates to the bayes' factor of that
        lumping.
    labels : dict
        Mapping from number of macrostates to the labelling of
        microstates into that number of macrostates.


    References
    ----------
    .. [1] Bowman, G. R. Improved coarse-graining of Markov state models via
        explicit consideration of statistical uncertainty. J Chem Phys 137,
        134111 (2012).
    """

    # perform filter
    logger.info("Checking for states with insufficient statistics")
    c, state_map, statesKeep = baysean_prune(c, n_procs)
    c = c.astype('float')
    logger.info("Merged %d states with insufficient statistics into their "
                "kinetically-nearest neighbor", c.shape[0] - len(statesKeep))

    # get num counts in each state (or weight)
    w = np.array(c.sum(axis=1)).flatten()
    w[statesKeep] += 1

    unmerged = np.zeros(w.shape[0], dtype=np.int8)
    unmerged[statesKeep] = 1

    # get nonzero indices in upper triangle
    indRecalc = getInds(c, statesKeep, chunk_size)
    if scipy.sparse.issparse(c):
        dMat = scipy.sparse.lil_matrix(c.shape)
    else:
        dMat = np.zeros(c.shape, dtype=np.float32)

    if scipy.sparse.issparse(c):
        c = c.tocsr()

    bayes_factors = {}
    labels = {}

    dMat, minX, minY = calcDMat(c, w, bayes_factors, indRecalc, dMat, n_procs,
                                statesKeep, unmerged, chunk_size)
    logger.info("Coarse-graining...")

    for cycle in range(c.shape[0] - n_macrostates):
        logger.info("Iteration %d, merging %d states",
                    cycle, c.shape[0] - cycle)
        rslt = mergeTwoClosestStates(
            c, w, bayes_factors, indRecalc, dMat, n_procs, state_map,
            statesKeep, minX, minY, unmerged, chunk_size)
        c, w, indRecalc, dMat, state_map, statesKeep, unmerged, minX, \
            minY = rslt

        labels[c.shape[0] - cycle - 1] = state_map.astype(int)

    return bayes_factors, labels


def mergeTwoClosestStates(
        c, w, bayes_factors, indRecalc, dMat, nProc, state_map, statesKeep,
        minX, minY, unmerged, chunkSize):
    sparse = scipy.sparse.issparse(c)
    if sparse:
        c = c.tolil()
    if unmerged[minX]:
        c[minX, statesKeep] += unmerged[statesKeep] / c.shape[0]
        unmerged[minX] = 0
        if sparse:
            c[statesKeep, minX] += (
                np.matrix(unmerged[statesKeep]).transpose() / c.shape[0])
        else:
            c[statesKeep, minX] += unmerged[statesKeep] / c.shape[0]
    if unmerged[minY]:
        c[minY, statesKeep] += unmerged[statesKeep] / c.shape[0]
        unmerged[minY] = 0
        if sparse:
            c[statesKeep, minY] += (
                np.matrix(unmerged[statesKeep]).transpose() / c.shape[0])
        else:
            c[statesKeep, minY] += unmerged[statesKeep] / c.shape[0]
    c[minX, statesKeep] += c[minY, statesKeep]
    c[statesKeep, minX] += c[statesKeep, minY]
    c[statesKeep, minY] = c[minY, statesKeep] = 0
    dMat[minX, :] = dMat[:, minX] = 0
    dMat[minY, :] = dMat[:, minY] = 0

    if sparse:
        c = c.tocsr()
    w[minX] += w[minY]
    w[minY] = 0
    statesKeep = statesKeep[np.where(statesKeep != minY)[0]]
    indChange = np.where(state_map == state_map[minY])[0]
    state_map = renumberMap(state_map, state_map[minY])
    state_map[indChange] = state_map[minX]
    indRecalc = getInds(c, [minX], chunkSize, updateSingleState=minX)
    dMat, minX, minY = calcDMat(c, w, bayes_factors, indRecalc, dMat, nProc,
                                statesKeep, unmerged, chunkSize)
    return c, w, indRecalc, dMat, state_map, statesKeep, unmerged, minX, minY


def renumberMap(state_map, stateDrop):
    for i in range(state_map.shape[0]):
        if state_map[i] >= stateDrop:
            state_map[i] -= 1
    return state_map


def calcDMat(c, w, bayes_factors, indices, dMat, n_procs, statesKeep,
             unmerged, chunkSize):
    n = len(indices)
    if n > 1 and n_procs > 1:
        n_procs = min(n, n_procs)
        step = n // n_procs

        end_index = n if n % step > 3 else n-step
        dlims = zip(range(0, end_index, step),
                    list(range(step, end_index, step)) + [n])

        with multiprocessing.Pool(processes=n_procs) as pool:
            result = pool.map(
                functools.partial(multiDist, c=c, w=w, statesKeep=statesKeep,
                                  unmerged=unmerged, chunkSize=chunkSize),
                [indices[start:stop] for start, stop in dlims])

            d = np.vstack(result)
    else:
        d = multiDist(indices, c, w, statesKeep, unmerged, chunkSize)
    for i in range(len(indices)):
        dMat[indices[i][0], indices[i][1]] = d[i][:len(indices[i][1])]

    # BACE BF inverted so can use sparse matrices
    if scipy.sparse.issparse(dMat):
        minX = minY = -1
        maxD = 0
        for x in statesKeep:
            if len(dMat.data[x]) == 0:
                continue
            pos = np.argmax(dMat.data[x])
            if dMat.data[x][pos] > maxD:
                maxD = dMat.data[x][pos]
                minX = x
                minY = dMat.rows[x][pos]
    else:
        indMin = dMat.argmax()
        minX = int(np.floor(indMin / dMat.shape[1]))
        minY = indMin % dMat.shape[1]

    bayes_factors[statesKeep.shape[0]-1] = 1./dMat[minX, minY]

    return dMat, minX, minY


def multiDist(indicesList, c, w, statesKeep, unmerged, chunkSize):
    d = np.zeros((len(indicesList), chunkSize), dtype=np.float32)
    for j in range(len(indicesList)):
        indices = indicesList[j]
        ind1 = indices[0]

        if scipy.sparse.issparse(c):
            c1 = (c[ind1, statesKeep].toarray()[0] + unmerged[ind1] *
                  unmerged[statesKeep] / c.shape[0])
        else:
            c1 = (c[ind1, statesKeep] + unmerged[ind1] * unmerged[statesKeep] /
                  c.shape[0])

        # BACE BF inverted so can use sparse matrices
        d[j, :indices[1].shape[0]] = 1 / multiDistHelper(
            indices[1], c1, w[ind1], c, w, statesKeep, unmerged)
    return d


def multiDistHelper(indices, c1, w1, c, w, statesKeep, unmerged):
    d = np.zeros(indices.shape[0], dtype=np.float32)
    p1 = c1 / w1
    for i in range(indices.shape[0]):
        ind2 = indices[i]

        if scipy.sparse.issparse(c):
            c2 = (c[ind2, statesKeep].toarray()[0] + unmerged[ind2] *
                  unmerged[statesKeep] / c.shape[0])
        else:
            c2 = (c[ind2, statesKeep] + unmerged[ind2]*unmerged[statesKeep] /
                  c.shape[0])

        p2 = c2 / w[ind2]
        cp = c1 + c2
        cp /= (w1 + w[ind2])
        d[i] = c1.dot(np.log(p1/cp)) + c2.dot(np.log(p2/cp))
    return d


def absorb(c, absorb_states):
    """Absorb states into their kinetically nearest neighbors.

    Parameters
    ----------
    c : array, shape=(n_states, n_states)
        Transition counts matrix
    absorb_states : iterable
        List of states to absorb to their kinetically nearest neighbor.

    Returns
    -------
    c : array, shape=(n_states - n_absorbed, n_states - n_absorbed)
        Transition counts matrix with states absorbed
    labels : array, shape=(n_states,)
        Array of labels showing how states were absorbed.
    """

    c = c.tolil() if scipy.sparse.issparse(c) else c.copy()

    # each state starts off labeled as itself
    labels = np.arange(c.shape[0])

    for s in absorb_states:
        # first, store then zero out the self counts of the state to
        # trim so it isn't considered in argmax calculations
        self_cts = c[s, s]
        c[s, s] = 0

        if np.sum(c[s, :]) == 0:
            if self_cts:  # only self counts => disconnected
                raise exception.DataInvalid(
                    "State %s can't be absorbed into a neighbor because "
                    "it is disconnected." % s)
            else:  # the entire row is zeros => ignore
                labels[s] = -1
                continue

        if scipy.sparse.issparse(c):
            dest = c.rows[s][np.argmax(c.data[s])]
        else:
            dest = c[s, :].argmax()

        # add old transitions into the destination state
        c[dest, :] += c[s, :]
        c[:, dest] += c[:, s]
        c[dest, dest] += self_cts

        c[s, :] = c[:, s] = 0
        labels = renumberMap(labels, labels[s])
        labels[s] = labels[dest]

    return c, labels


def baysean_prune(c, n_procs=1, factor=np.log(3)):
    """Prune states less than a particular bayes' factor, lumping them
    in with their kinetically most-similar neighbor.

    Parameters
    ----------
    c : array, shape=(n_states, n_states)
        Transition counts matrix
    n_procs : int
        Width of parallelization for this operation.
    factor : float, default=ln(3)
        Bayes' factor at which to prune states.
    in_place : bool, default=False
        Compute the pruning of counts matrix C in place.

    Returns
    -------
    c : array, shape=(n_states_pruned, n_states_pruned)
        Transition counts matrix after pruning
    labels : array, shape=(n_states)
        Labels of old states in new states. The value j at position i
        indicates that state i was merged into state j.
    kept_states : array, shape=(n_states)
        Array of state indices that were retained during pruning.
    """

    if scipy.sparse.issparse(c) and not hasattr(c, '__getitem__'):
        c = c.tocsr()
    else:
        c.copy()

    # get num counts in each state (or weight)
    w = np.array(c.sum(axis=1)).flatten() + 1

    # pseudo-state (just pseudo counts)
    pseud = np.ones(c.shape[0], dtype=np.float32)
    pseud /= c.shape[0]

    indices = np.arange(c.shape[0], dtype=np.int32)
    statesKeep = np.arange(c.shape[0], dtype=np.int32)
    unmerged = np.ones(c.shape[0], dtype=np.int8)

    n_ind = len(indices)
    if n_ind > 1 and n_procs > 1:
        n_procs = min(n_ind, n_procs)
        step = n_ind // n_procs
        end_index = n_ind if n_ind % step > 3 else n_ind-step

        dlims = zip(range(0, end_index, step),
                    list(range(step, end_index, step)) + [n_ind])

        with multiprocessing.Pool(processes=n_procs) as pool:
            result = pool.map(
                functools.partial(multiDistHelper, c1=pseud, w1=1, c=c, w=w,
                                  statesKeep=statesKeep, unmerged=unmerged),
                [indices[start:stop] for start, stop in dlims])

            d = np.concatenate(result)
    else:
        d = multiDistHelper(indices, pseud, 1, c, w, statesKeep, unmerged)

    # prune states with Bayes factors less than 3:1 ratio (log(3) = 1.1)
    statesPrune = np.where(d < factor)[0]
    statesKeep = np.where(d >= factor)[0]

    c, labels = absorb(c, statesPrune)

    return c, labels, statesKeep

"""This submodule contains the MSM object and associated book-keeping
features.
"""

import os
import shutil
import tempfile
import pickle
import json
import logging

import numpy as np
from scipy import sparse
from scipy.io import mmwrite, mmread

from sklearn.base import BaseEstimator as SklearnBaseEstimator

from ..exception import ImproperlyConfigured
from . import builders
from .transition_matrices import assigns_to_counts, TrimMapping, \
    trim_disconnected


logger = logging.getLogger(__name__)


class MSM(SklearnBaseEstimator):
    """The MSM class is an sklearn-style wrapper class for the methods in
    the enspara.msm module for construction Markov state models.

    It takes a `lag_time`, the amount of time to wait to assume that two
    frames are conditionally independant, and a `method` which is a
    function (e.g. from `enspara.msm.builders`) that will construct the
    transition probability matrix from the transition count matrix.

    The option `trim` determines if states without a transition both in
    and out will be excluded.
    """

    @classmethod
    def from_assignments(cls, assignments, **kwargs):
        m = cls(**kwargs)
        m.fit(assignments)
        return m

    def __init__(
            self, lag_time, method, trim=False, sliding_window=True,
            max_n_states=None):

        self.lag_time = lag_time
        self.trim = trim
        self.max_n_states = max_n_states

        if callable(method):
            self.method = method
        else:
            self.method = getattr(builders, method)
        self.sliding_window = sliding_window

    def fit(self, assigns):
        '''Computes a transition count matrix from assigns, then trims
        states (if applicable) and computes a mapping from new to old
        state numbering, and then fits the transition probability matrix
        with the given `method`.

        Parameters
        ----------
        assigns : array-like, shape=(n_trajectories, Any)
            Assignments of trajectory frames to microstates
        '''

        tcounts = assigns_to_counts(
            assigns,
            max_n_states=self.max_n_states,
            lag_time=self.lag_time,
            sliding_window=self.sliding_window)

        if self.trim:
            original_state_count = tcounts.shape[0]
            self.mapping_, tcounts = trim_disconnected(tcounts)
            logger.info("After ergodic trimming, %s of %s states remain",
                        len(self.mapping_.to_original),
                        original_state_count)
        else:
            self.mapping_ = TrimMapping(zip(range(tcounts.shape[0]),
                                            range(tcounts.shape[0])))

        self.tcounts_, self.tprobs_, self.eq_probs_ = self.method(tcounts)

    @property
    def n_states_(self):
        """The number of states in this Markov state model. If requested
        before fitting, an ImproperlyConfigured exception is raised.
        """
        if hasattr(self, 'tprobs_'):
            assert self.tprobs_.shape[0] == self.tcounts_.shape[0]
            return self.tprobs_.shape[0]
        else:
            raise ImproperlyConfigured(
                "MSM must be fit before it has a number of states.")

    @property
    def config(self):
        """The configuration of this Markov state model, including
        lag_time, sliding_window, trim, and method.
        """
        return {
            'lag_time': self.lag_time,
            'sliding_window': self.sliding_window,
            'trim': self.trim,
            'method': self.method,
            'max_n_states': self.max_n_states,
        }

    @property
    def result_(self):
        '''Returns a dictionary of each of the parameters fit for the
        MSM (`tprobs`, `tcounts`, `eq_probs`, and `mapping_`).
        '''

        if self.tcounts_ is not None:
            assert self.tprobs_ is not None
            assert self.mapping_ is not None
            assert self.eq_probs_ is not None

            return {
                'tcounts_': self.tcounts_,
                'tprobs_': self.tprobs_,
                'eq_probs_': self.eq_probs_,
                'mapping_': self.mapping_
            }
        else:
            assert self.tprobs_ is None
            assert self.mapping_ is None
            assert self.eq_probs_ is None
            return None

    def __eq__(self, other):
        if self is other:
            return True
        else:
            if self.config != other.config:
                return False

            if self.result_ is None:
                # one is not fit, equality if neither is
                return other.result_ is None
            else:
                # eq probs can do numpy comparison (dense)
                if not np.all(self.eq_probs_ == other.eq_probs_):
                    return False

                if self.mapping_ != other.mapping_:
                    return False

                # compare tcounts, tprobs shapes.
                if self.tcounts_.shape != other.tcounts_.shape or \
                   self.tprobs_.shape != other.tprobs_.shape:
                    return False

                # identical shapes => use nnz for element-wise equality
                # (builders with prior counts return dense counts)
                if (sparse.csr_matrix(self.tcounts_) !=
                        sparse.csr_matrix(other.tcounts_)).nnz != 0:
                    return False

                # imperfect serialization leads to diff in tprobs, use
                # allclose instead of all
                f_self = sparse.find(self.tprobs_)
                f_other = sparse.find(other.tprobs_)

                if not np.all(f_self[0] == f_other[0]) or \
                   not np.all(f_self[1] == f_other[1]):
                    return False

                if not np.all(f_self[2] == f_other[2]):
                    print("tprobs differs.")
                    return False

                return True

    def __repr__(self):
        return str(self)

    def __str__(self):
        s = "MSM:"+str({
                'config': self.config,
                'fit': self.result_
            })

        return s

    @classmethod
    def load(cls, path, manifest='manifest.json'):
        '''Load an MSM object from disk into memory.

        Parameters
        ----------
        path : str
            The location of the root directory of the MSM seralization
        manifest : str
            The name of the file to save as a json manifest of the MSM
            directory (contains the paths to each other file).
        '''
        if not os.path.isdir(path):
            raise NotImplementedError("MSMs don't handle zip archives yet.")

        with open(os.path.join(path, manifest)) as f:
            fname_dict = json.load(f)

        # decorate fname_dict values with path
        fname_dict = {k: os.path.join(path, v) for k, v in fname_dict.items()}

        with open(fname_dict['config'], 'rb') as f:
            config = pickle.load(f)

        msm = MSM(**config)

        msm.tcounts_ = mmread(fname_dict['tcounts_'])
        msm.tprobs_ = mmread(fname_dict['tprobs_'])
        msm.mapping_ = TrimMapping.load(fname_dict['mapping_'])
        msm.eq_probs_ = np.loadtxt(fname_dict['eq_probs_'], ndmin=1)

        return msm

    def save(self, path, force=False, zipfile=False, **filenames):
        '''Load an MSM object from disk into memory.

        Parameters
        ----------
        path : str
            The location of the root directory of the MSM seralization
        force : bool, default=False
            If the directory at path already exists, overwrite it.
        zipfile : bool, default=False
            Convert the output to a tarball-zip after writing.
        mapping_ : str, default='mapping.csv'
            The name to give the csv containing the mapping file.
        tcounts_ : str, default='tcounts.mtx'
            The name to give the mtx containing the tcounts file.
        tprobs_ : str, default='tprobs.mtx'
            The name to give the mtx containing the tprobs file.
        eq_probs_ : str, default='eq-probs.dat'
            The name to give the dat containing the eq_probs file.
        config : str, default='config.pkl'
            The name to give the pickled configuration.
        '''

        fname_dict = {
            'mapping_': 'mapping.csv',
            'tcounts_': 'tcounts.mtx',
            'tprobs_': 'tprobs.mtx',
            'eq_probs_': 'eq-probs.dat',
            'config': 'config.pkl',
        }

        fname_dict.update(filenames)

        with tempfile.TemporaryDirectory(prefix=os.path.basename(path)) \
                as tempdir:

            def tmp_fname(prop):
                return os.path.join(tempdir, fname_dict[prop])

            with open(os.path.join(tempdir, 'manifest.json'), 'w') as f:
                json.dump(fname_dict, f, sort_keys=True, indent=4,
                          separators=(',', ': '))

            with open(tmp_fname('mapping_'), 'w') as f:
                self.mapping_.write(f)
            with open(tmp_fname('tcounts_'), 'wb') as f:
                mmwrite(f, self.tcounts_)
            with open(tmp_fname('tprobs_'), 'wb') as f:
                # mmwrite must use this number to allow for consistent
                # round-tripping of the msm object
                mmwrite(f, self.tprobs_, precision=20)
            with open(tmp_fname('eq_probs_'), 'wb') as f:
                np.savetxt(f, np.array(self.eq_probs_))
            with open(tmp_fname('config'), 'wb') as f:
                pickle.dump(self.config, f)

            if force and os.path.isdir(path):
                shutil.rmtree(path)

            if zipfile:
                raise NotImplementedError("MSMs don't do zip archives yet.")
            else:
                shutil.copytree(tempdir, path)

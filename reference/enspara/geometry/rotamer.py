import mdtraj as md
import numpy as np
from enspara.exception import DataInvalid


def dihedral_angles(traj, dihedral_type):
    valid_dihedral_types = ["phi", "psi", "chi1", "chi2", "chi3", "chi4"]
    if dihedral_type not in valid_dihedral_types:
        return None, None, None

    f = getattr(md, "compute_%s" % dihedral_type)
    atom_inds, angles = f(traj)

    # transform so angles range from 0 to 360 instead of radians or -180 to 180
    angles = np.rad2deg(angles)
    angles[np.where(angles < 0)] += 360
    angles[np.where(angles > 359.5)] = 359.5

    n_angles = angles.shape[1]
    ref_atom_inds = np.zeros(n_angles)
    for i in range(n_angles):
        atom = traj.topology.atom(atom_inds[i, 2])
        ref_atom_inds[i] = int(atom.index)

    return angles, atom_inds


def _rotamers(angles, hard_boundaries, buffer_width=15):
    """Rotamer state assignment for any trajectory of dihedral angles
    using a buffered transiton approach.

    NOTE: This method works entirely in degrees and assumes that you have
    already transformed your data to span from 0 to 360

    Parameters
    ----------
    angles : array-like, shape=(n_frames)
        Time-series data containing the values of
        a single dihedral angle from a trajectory. This array MUST:
        a) Be passed in degrees
        b) Span from 0 to 360 in range
    hard_boundaries : array-like, shape=(n_boundaries)
        Single set of numbers containing the "hard" boundaries denoting
        rotamer basins. This array MUST contain 0 as the first value and
        360 as the last value.
    buffer_width : int, default=15
        Size (in degrees) of the buffer region on either side of the
        rotamer barrier; a value of 0 indicates no buffer.

    Returns
    --------
    rotamers : array-like, shape=(n_frames)
        Time-series data with rotamer state assignments. Each element i
        contains the rotamer state assignment computed using the "angles"
        array.

    See Also
    --------
    is_buffered_transition, get_gates
    """
    n_basins = len(hard_boundaries) - 1

    if buffer_width < 0 or buffer_width >= 360. / n_basins:
        raise DataInvalid('Buffer width (got %s) must be between 0 and '
                          '360 degrees.' % buffer_width)
    if hard_boundaries[0] != 0 or hard_boundaries[-1] != 360:
        raise DataInvalid('hard_boundaries list must start with 0 and '
                          'end with 360, list was %s.' % hard_boundaries)

    # Need to establish how long it is and create an appropriate output array
    n_frames = len(angles)
    rotamers = -1 * np.ones(n_frames, dtype='int16')

    # First, assign the first state to its rotamer bin
    # make sure assign first frame
    for i in range(n_basins):
        if angles[0] < hard_boundaries[i + 1]:
            rotamers[0] = i
            break

    # Now we will go through each subsequent element of the array and
    # assign each state based on whether or not there is a buffered transition
    cur_state = rotamers[0]
    for i in range(1, n_frames):
        new_angle = angles[i]
        cur_angle = angles[i - 1]

        # If there is a buffered transition we will reassign states
        if is_buffered_transition(cur_state, new_angle, hard_boundaries,
                                  buffer_width):
            cur_state = np.digitize(new_angle, hard_boundaries) - 1

        rotamers[i] = cur_state

    return rotamers


def is_buffered_transition(cur_state, new_angle, hard_boundaries,
                           buffer_width):
    """Returns whether or not the change in angle is a buffered transition.
    A "buffered transition" is defined as a transition between rotameric states
    that happens across a buffer-zone. That is, the transition occurred while
    the rotamer is buffered.

    Parameters
    ----------
    cur_state : int,
        Rotameric basin index presently being occupied by the dihedral
    new_angle : float,
        Dihedral angle value at the dihedral's subsequent timestep. Note that
        this value must meet the same two conditions as described above in
        _rotamers method.
    hard_boundaries : array-like, shape=(n_boundaries)
        Single set of numbers containing the "hard" boundaries denoting
        rotamer basins. This array MUST contain 0 as the first value and
        360 as the last value.
    buffer_width : int, default=15
        size of the buffer region on either side of the
        rotamer barrier.

    Returns
    ---------
    result : boolean
        Returns a boolean representing whether or not the transition from
        cur_state to new_angle represents a real transiton out of a
        buffer zone


    See Also
    --------
    _rotamers, get_gates
    """

    # By default, we assume that no transition has occurred
    result = False

    # A basin whose buffered width spans the whole circle cannot be left
    # (its gates would cross a second time and invert the tests below).
    basin_width = (hard_boundaries[int(cur_state) + 1] -
                   hard_boundaries[int(cur_state)])
    if basin_width + 2 * buffer_width >= 360:
        return False

    # Given the current angle, we need to identify the "gates"
    lower_bound, upper_bound = get_gates(cur_state, hard_boundaries,
                                         buffer_width)

    # Keep in mind these are gates representing what new_angle has to EXIT.

    # This means that if new_angle is within the interval spanning these gate
    # it has transitioned.

    # We can check to see if this is a wrap around state or not.

    # If it is  meant to be a "wrap around", then the
    # difference (Upper - Lower) would be negative because gates are
    # flipped.
    if (upper_bound < lower_bound):
        if (upper_bound <= new_angle <= lower_bound):
            result = True

    # If the difference is positive, then we just need to flip our inequality
    if (upper_bound > lower_bound):
        if (not (lower_bound <= new_angle <= upper_bound)):
            result = True

    return result


def get_gates(cur_state, hard_boundaries, buffer_width):
    """Obtains the gates that represent the edges that a dihedral must exit
    from to undergo a buffered transition.

    Parameters
    -----------
    cur_state : int,
        Rotameric basin index presently being occupied by the dihedral
    hard_boundaries : array-like, shape=(1, n_boundaries)
        Single set of numbers containing the "hard" boundaries denoting
        rotamer basins. This array MUST contain 0 as the first value and
        360 as the last value.
    buffer_width : int, default=15
        size of the buffer region on either side of the
        rotamer barrier.

    Returns
    ----------
    lower_bound : int
        Lower gate that must be crossed for a transition to occur
    upper_bound : int
        Upper gate that must be crossed for a transition to occur

    See Also
    --------
    _rotamers, is_buffered_transition

    """
    # First, assign the current angle into one of the boundaries
    n_basins = len(hard_boundaries) - 1
    state_num = int(cur_state)

    # for i in range(n_basins):
    #     if cur_angle < hard_boundaries[i+1]:
    #         state_num = i
    #         break

    # Now that we know the state it's in - we can dictate it's gates
    lower_bound = hard_boundaries[state_num]
    upper_bound = hard_boundaries[state_num+1]
    # These represents the edges which have to be crossed by new_angle

    # If the lower bound is zero, set upper bound to 360 (wrap around)
    # If the upper bound is 360, set lower bound to 0 (wrap around)
    if (lower_bound == 0):
        lower_bound = 360
    if (upper_bound == 360):
        upper_bound = 0

    lower_bound -= buffer_width
    upper_bound += buffer_width

    # Keep in mind that these are gates representing what boundaries must be
    # crossed by the new angle to be considered a transition
    # This point will be addressed in the is_buffered_transition method

    return lower_bound, upper_bound


def phi_rotamers(traj, buffer_width=15):
    hard_boundaries = [0, 180, 360]
    angles, atom_inds = dihedral_angles(traj, 'phi')

    n_frames, n_angles = angles.shape
    rotamers = np.zeros((n_frames, n_angles), dtype='int16')
    for i in range(n_angles):
        rotamers[:, i] = _rotamers(angles[:, i], hard_boundaries, buffer_width)

    n_states = 2*np.ones(n_angles, dtype='int16')

    return rotamers, atom_inds, n_states


def psi_rotamers(traj, buffer_width=15):
    angles, atom_inds = dihedral_angles(traj, 'psi')

    # shift by 100 so boundaries at 0 and 360
    shifted_angles = angles-100
    shifted_angles[np.where(shifted_angles < 0)] += 360
    # a tiny negative value plus 360 rounds to 360.0 (cf. dihedral_angles)
    shifted_angles[np.where(shifted_angles > 359.5)] = 359.5
    hard_boundaries = [0, 160, 360]

    n_frames, n_angles = angles.shape
    rotamers = np.zeros((n_frames, n_angles), dtype='int16')
    for i in range(n_angles):
        rotamers[:, i] = _rotamers(shifted_angles[:, i], hard_boundaries,
                                   buffer_width)

    n_states = 2*np.ones(n_angles, dtype='int16')

    return rotamers, atom_inds, n_states


def chi_rotamers(traj, buffer_width=15):
    # could make a dictionary of boundaries for different residue/dihedral
    # types
    hard_boundaries = [0, 120, 240, 360]

    angles, atom_inds = dihedral_angles(traj, 'chi1')
    for i in range(2, 5):
        more_angles, more_atom_inds = dihedral_angles(traj, 'chi%d' % i)
        angles = np.append(angles, more_angles, axis=1)
        atom_inds = np.append(atom_inds, more_atom_inds, axis=0)

    n_frames, n_angles = angles.shape
    rotamers = np.zeros((n_frames, n_angles), dtype='int16')
    for i in range(n_angles):
        rotamers[:, i] = _rotamers(angles[:, i], hard_boundaries, buffer_width)

    n_states = 3*np.ones(n_angles, dtype='int16')

    return rotamers, atom_inds, n_states


def all_rotamers(traj, buffer_width=15):
    """Compute the rotameric states of a trajectory over time.

    Parameters
    ----------
    traj : md.Trajectory
        Trajectory from which to compute a rotamer trajectory.
    buffer_width: int, default=15
        Width of the "no-man's land" between rotameric bins in which no
        assignment is made.

    Returns
    -------
    all_rotamers : np.ndarray, shape=(n_frames, n_dihedrals)
        Assignment of each dihedral to a rotameric state as an int in
        the range 0-2.
    all_atom_inds : np.ndarray, shape=(n_dihedrals, 4)
        Array of the four atom indices that define each dihedral angle.
    all_n_states : np.ndarray, shape=(n_dihedrals,)
        Array indicating the maximum number of states a dihedral angle
        is expected to take (as a consequence of its topology); this
        value differs for backbone and sidechain dihedrals.

    References
    ----------
    .. [1] Sukrit Singh and Gregory R. Bowman, "Quantifying allosteric communication via
        both concerted structural changes and conformational disorder with CARDS".
        Journal of Chemical Theory and Computation 2017 13 (4), 1509-1517
        DOI: 10.1021/acs.jctc.6b01181
    """
    phi_rotameric_states, phi_atom_inds, n_phi_states = phi_rotamers(
        traj, buffer_width=buffer_width)
    all_rotamers, all_atom_inds, all_n_states = phi_rotameric_states, \
        phi_atom_inds, n_phi_states

    psi_rotameric_states, psi_atom_inds, n_psi_states = psi_rotamers(
        traj, buffer_width=buffer_width)
    all_rotamers = np.append(all_rotamers, psi_rotameric_states, axis=1)
    all_atom_inds = np.append(all_atom_inds, psi_atom_inds, axis=0)
    all_n_states = np.append(all_n_states, n_psi_states, axis=0)

    chi_rotameric_states, chi_atom_inds, n_chi_states = chi_rotamers(
        traj, buffer_width=buffer_width)
    all_rotamers = np.append(all_rotamers, chi_rotameric_states, axis=1)
    all_atom_inds = np.append(all_atom_inds, chi_atom_inds, axis=0)
    all_n_states = np.append(all_n_states, n_chi_states, axis=0)

    assert issubclass(all_rotamers.dtype.type, np.integer)
    assert issubclass(all_n_states.dtype.type, np.integer)

    return all_rotamers, all_atom_inds, all_n_states

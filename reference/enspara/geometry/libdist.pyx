import numpy as np
from cython.parallel import prange

from enspara import exception

cimport cython
cimport numpy as np

ctypedef fused FLOAT_TYPE_T:
    np.int8_t
    np.int16_t
    np.int32_t
    np.int64_t
    np.float32_t
    np.float64_t

ctypedef fused INTEGRAL_TYPE_T:
    np.uint8_t
    np.uint16_t
    np.uint32_t
    np.uint64_t
    np.int8_t
    np.int16_t
    np.int32_t
    np.int64_t

cdef extern from "math.h" nogil:
    double sqrt(double x)
    double fabs(double x)
    float fabs(float x)

def _check_is_2d(X):
    if len(X.shape) != 2:
        raise exception.DataInvalid(
            "Data array dimension must be two, got shape %s." %
            str(X.shape))

def _check_is_1d(x):
    if len(x.shape) != 1:
        raise exception.DataInvalid(
            "Target point dimension must be one, got shape %s." %
            str(x.shape))

def _prepare_for_2d_to_1d_distance(X, y, out):

    _check_is_2d(X)
    _check_is_1d(y)
    if X.shape[1] != y.shape[0]:
        raise exception.DataInvalid(
            ("Target data point dimension (%s) must match data " +
             "array dimension (%s)") % (y.shape[0], X.shape[1]))

    # if `out` isn't provided, allocate it.
    # if `out` is provided, check it for appropriateness
    if out is None:
        out = np.zeros((X.shape[0]), dtype=np.float64)
    else:
        # precision problems happen if out is less than 64-bit
        if out.dtype != np.float64:
            raise exception.DataInvalid(
                "In-place output array must be np.float64, got '%s'."
                % out.dtype)
        if out.shape[0] != X.shape[0]:
            raise exception.DataInvalid(
                ("In-place output array dimension (%s) must match number of "
                 "samples in data array (%s)") % (out.shape[0], X.shape[0]))
        if len(out.shape) != 1:
            raise exception.DataInvalid(
                "In-place output array must be one-dimensional, "
                "got shape %s" %
                out.shape)
    return out


@cython.boundscheck(False)
@cython.wraparound(False)
def _hamming(np.ndarray[INTEGRAL_TYPE_T, ndim=2] X,
             np.ndarray[INTEGRAL_TYPE_T, ndim=1] y,
             np.ndarray[np.float64_t, ndim=1] out):

    cdef long n_samples = len(out)
    cdef long n_features = len(y)
    assert len(out) == X.shape[0], "Size of output array didn't match number of observations in X"
    assert n_features == X.shape[1], "Number of features between X and y didn't match."

    cdef long i, j = 0

    for i in prange(n_samples, nogil=True):
        out[i] = 0
        for j in range(n_features):
            if y[j] != X[i, j]:
                out[i] += 1
        out[i] /= n_features

    return out


@cython.boundscheck(False)
@cython.wraparound(False)
def _manhattan(np.ndarray[FLOAT_TYPE_T, ndim=2] X,
               np.ndarray[FLOAT_TYPE_T, ndim=1] y,
               np.ndarray[np.float64_t, ndim=1] out):

    cdef long n_samples = len(out)
    cdef long n_features = len(y)
    assert len(out) == X.shape[0]
    assert n_features == X.shape[1]

    cdef long i, j = 0
    for i in prange(n_samples, nogil=True):
        out[i] = 0

    for i in prange(n_samples, nogil=True):
        for j in range(n_features):
            out[i] += fabs(<double>X[i, j] - <double>y[j])

    return out.reshape(-1, 1)


@cython.boundscheck(False)
@cython.wraparound(False)
def _euclidean(np.ndarray[FLOAT_TYPE_T, ndim=2] X,
               np.ndarray[FLOAT_TYPE_T, ndim=1] y,
               np.ndarray[np.float64_t, ndim=1] out):

    cdef long n_samples = len(out)
    cdef long n_features = len(y)
    assert len(out) == X.shape[0]
    assert n_features == X.shape[1]

    cdef long i, j = 0

    # zero out output array; this is fast compared to the actual
    # computation, so we always do it.
    for i in prange(n_samples, nogil=True):
        out[i] = 0

    for i in prange(n_samples, nogil=True):
        for j in range(n_features):
            out[i] += (<double>X[i, j] - <double>y[j])**2

    for i in prange(n_samples, nogil=True):
        out[i] = sqrt(out[i])

    return out.reshape(-1, 1)


def euclidean(X, y, out=None):
    """Compute the euclidean distance between a point, `y`, and a group
    of points `X`. Uses thread-parallelism with OpenMP.

    Parameters
    ----------
    X : array, shape=(n_samples, n_features)
        The group of points for which to compute the distance from `y`.
    y: array, shape=(n_features)
        The point, for all rows in `X`, to compute the distance to.
    out: array, shape=(n_samples), default=None
        If provided, the array to place the distances in. If not provided,
        an array will be allocated for you.
    """
    out = _prepare_for_2d_to_1d_distance(X, y, out)
    _euclidean(X, y, out)
    return out

def manhattan(X, y, out=None):
    """Compute the Manhattan distance between a point `y` and a group of
    points `X`. Thread-parallized using OpenMP.

    Parameters
    ----------
    X : array, shape=(n_samples, n_features)
        The group of points for which to compute the distance from `y`.
    y: array, shape=(n_features)
        The point, for all rows in `X`, to compute the distance to.
    out: array, shape=(n_samples), default=None
        If provided, the array to place the distances in. If not provided,
        an array will be allocated for you.
    """

    out = _prepare_for_2d_to_1d_distance(X, y, out)
    _manhattan(X, y, out)
    return out


def hamming(X, y, out=None):
    """Compute the Hamming distance between a point `y` and a group of
    points `X`. Thread-parallized using OpenMP.

    Parameters
    ----------
    X : array, shape=(n_samples, n_features)
        The group of points for which to compute the distance from `y`.
    y: array, shape=(n_features)
        The point, for all rows in `X`, to compute the distance to.
    out: array, shape=(n_samples), default=None
        If provided, the array to place the distances in. If not provided,
        an array will be allocated for you.
    """

    out = _prepare_for_2d_to_1d_distance(X, y, out)
    _hamming(X, y, out)
    return out

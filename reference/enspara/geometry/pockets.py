# Author: Gregory R. Bowman <gregoryrbowman@gmail.com>
# Contributors:
# Copyright (c) 2016, Washington University in St. Louis
# All rights reserved.
# Unauthorized copying of this file, via any medium is strictly prohibited
# Proprietary and confidential

import mdtraj as md
import numpy as np
import scipy.cluster.hierarchy

from joblib import Parallel, delayed

from functools import partial
from multiprocessing import Pool
from ..util import parallel

def _grid_to_xyz(grid):
    """Convert a grid object (grid[x_ind,y_ind,z_ind]=[x,y,z])
    to an array of x,y,z coordinates
    """

    n_cells = grid.shape[0] * grid.shape[1] * grid.shape[2]
    xyz = grid.reshape((n_cells, 3))

    return xyz


def xyz_to_mdtraj(xyz, cluster_ids=None):
    """Convert a set of x,y,z coordinates to and mdtraj.Trajectory with a carbon
    atom centered at each of the specified coordinates.

    Each carbon will be part of a residue called POK. If cluster_ids are
    specified, these will be used as the residue numbers ofr sets of carbons
    in the same cluster.

    Parameters
    ----------
    xyz : np.ndarray, shape=(n_atoms, 3)
        Cartesian coordinates to center carbons at.
    cluster_ids : np.ndarray, shape=(n_atoms)
        If specified, the numbers in this array (one corresponding to each
        carbon atom to be created) will become the residue numbers for each
        carbon.

    Returns
    -------
    struct : mdtraj.Trajectory
        A Trajectory with a single frame containing a carbon at each of the
        specified x,y,z coordinates with residue numbers determined bye the
        cluster_ids, if specified.
    """
    # case for when there are no pockets
    if xyz.size == 0:
        return None

    n_xyz = xyz.shape[0]
    element = md.element.carbon
    top = md.Topology()
    chain = top.add_chain()
    if cluster_ids is None:
        res = top.add_residue("POK", chain, 0)
        for i in range(n_xyz):
            top.add_atom('C', element, res)
        sorted_xyz = xyz
    else:
        sorted_xyz = np.zeros((n_xyz,3))
        inds_sorted_by_cluster = np.argsort(cluster_ids)
        prev_res_ind = -1
        for i in range(n_xyz):
            cur_res_ind = cluster_ids[inds_sorted_by_cluster[i]]
            if cur_res_ind != prev_res_ind:
                res = top.add_residue("POK", chain, cur_res_ind)
                prev_res_ind = cur_res_ind
            top.add_atom('C', element, res)
            sorted_xyz[i] = xyz[inds_sorted_by_cluster[i]]

    struct = md.Trajectory(sorted_xyz, top)

    return struct


def create_grid(struct, grid_spacing, padding=0):
    """Create a grid spanning a structure with cubic cells, where each
    edge is grid_spacing long.

    Parameters
    ----------
    struct : mdtraj.Trajectory
        Only the first frame of this Trajectory will be used.
    grid_spacing : float (nm)
        The length of each edge of a cell in nm. So a cell has a volume
        of grid_spacing^3.
    padding : int, default=0
        The number of grid points to pad on each side of the protein
        (for good measure).

    Returns
    -------
    grid : np.ndarray, shape=(n_x,n_y,n_z,3)
        An n_x by n_y by n_z grid with the Cartesian coordinates of each cell
        in the grid (grid[x_ind,y_ind,z_ind]=[x,y,z]).
    """

    x_min = struct.xyz[0,:,0].min()
    x_max = struct.xyz[0,:,0].max()
    y_min = struct.xyz[0,:,1].min()
    y_max = struct.xyz[0,:,1].max()
    z_min = struct.xyz[0,:,2].min()
    z_max = struct.xyz[0,:,2].max()

    n_x_cells = int(np.ceil((x_max-x_min)/grid_spacing)) + padding*2
    n_y_cells = int(np.ceil((y_max-y_min)/grid_spacing)) + padding*2
    n_z_cells = int(np.ceil((z_max-z_min)/grid_spacing)) + padding*2

    x_coords = (x_min - grid_spacing*padding) + np.arange(n_x_cells)*grid_spacing
    y_coords = (y_min - grid_spacing*padding) + np.arange(n_y_cells)*grid_spacing
    z_coords = (z_min - grid_spacing*padding) + np.arange(n_z_cells)*grid_spacing
    y_mesh, x_mesh, z_mesh = np.meshgrid(y_coords, x_coords, z_coords)
    grid = np.concatenate(
        [
            x_mesh[:, :, :, None],
            y_mesh[:, :, :, None],
            z_mesh[:, :, :, None]], axis=3)
    return grid


def _get_cell_inds_within_cutoff(grid, point, distance_cutoff):
    """Find the indices of all the cells of a grid that are within
    distance_cutoff of the specified point.
    """

    n_x_cells, n_y_cells, n_z_cells = grid.shape[:3]
    x_min, y_min, z_min = grid[0,0,0]
    x_max, y_max, z_max = grid[-1,-1,-1]
    grid_spacing = (x_max-x_min)/(n_x_cells-1)

    # get indices of cell that specified point falls in
    x_cell_ind = int((point[0]-x_min)/grid_spacing)
    y_cell_ind = int((point[1]-y_min)/grid_spacing)
    z_cell_ind = int((point[2]-z_min)/grid_spacing)

    # get block of cells within cutoff distance of point
    num_cells_cutoff = int(np.ceil(distance_cutoff/grid_spacing))
    # include an extra cell (e.g. extra +/-1) just to be safe
    min_x_cell_ind = np.max([0, x_cell_ind-num_cells_cutoff])
    max_x_cell_ind = np.min([n_x_cells-1, x_cell_ind+num_cells_cutoff])
    min_y_cell_ind = np.max([0, y_cell_ind-num_cells_cutoff])
    max_y_cell_ind = np.min([n_y_cells-1, y_cell_ind+num_cells_cutoff])
    min_z_cell_ind = np.max([0, z_cell_ind-num_cells_cutoff])
    max_z_cell_ind = np.min([n_z_cells-1, z_cell_ind+num_cells_cutoff])

    return min_x_cell_ind, max_x_cell_ind, min_y_cell_ind, max_y_cell_ind, min_z_cell_ind, max_z_cell_ind


def _check_cartesian_axis(touches_protein, rank):
    """Finds cells along the x-axis of a grid that are not filled by protein
    atoms (touches_protein[x_ind,y_ind,z_ind]=0) but are surrounded by protein
    atoms (touches_protein[x_ind,y_ind,z_ind]=1) and increments their rank
    (rank[x_ind,y_ind,z_ind]) by one.
    """

    n_x_cells, n_y_cells, n_z_cells = touches_protein.shape
    for j in range(n_y_cells):
        for k in range(n_z_cells):
            x = touches_protein[:,j,k]
            inds_touching_protein = np.where(x>0)[0]
            # make sure there are at least two cells containing protein with some space between
            if inds_touching_protein.shape[0] > 1 and inds_touching_protein[0]+1 < inds_touching_protein[-1]:
                inds_consider = np.arange(inds_touching_protein[0]+1, inds_touching_protein[-1])
                inds_surrounded_by_protein = inds_consider[np.where(x[inds_consider]==0)[0]]
                if inds_surrounded_by_protein.shape[0] > 0:
                    rank[inds_surrounded_by_protein,j,k] += 1


def _check_diagonal_axis_helper(touches_protein, rank):
    """Finds cells along a diagonal of a grid that are not filled by protein
    atoms (touches_protein[x_ind,y_ind,z_ind]=0) but are surrounded by protein
    atoms (touches_protein[x_ind,y_ind,z_ind]=1) and increments their rank
    (rank[x_ind,y_ind,z_ind]) by one.
    """

    n_x_cells, n_y_cells, n_z_cells = touches_protein.shape
    for i in range(n_x_cells-1):
        for j in range(n_y_cells-1):
            n_b4_edge = np.min((n_x_cells-i,n_y_cells-j,n_z_cells))
            x_inds = np.arange(i,i+n_b4_edge)
            y_inds = np.arange(j,j+n_b4_edge)
            z_inds = np.arange(n_b4_edge)
            diag = touches_protein[x_inds,y_inds,z_inds]
            inds_touching_protein = np.where(diag>0)[0]
            # make sure there are at least two cells containing protein with some space between
            if inds_touching_protein.shape[0] > 1 and inds_touching_protein[0]+1 < inds_touching_protein[-1]:
                inds_consider = np.arange(inds_touching_protein[0]+1, inds_touching_protein[-1])
                inds_surrounded_by_protein = inds_consider[np.where(diag[inds_consider]==0)[0]]
                if inds_surrounded_by_protein.shape[0] > 0:
                    x_ind = x_inds[inds_surrounded_by_protein]
                    y_ind = y_inds[inds_surrounded_by_protein]
                    z_ind = z_inds[inds_surrounded_by_protein]
                    rank[x_ind, y_ind, z_ind] += 1


def _check_diagonal_axis(touches_protein, rank):
    """Finds cells along a diagonal of a grid that are not filled by protein
    atoms (touches_protein[x_ind,y_ind,z_ind]=0) but are surrounded by protein
    atoms (touches_protein[x_ind,y_ind,z_ind]=1) and increments their rank
    (rank[x_ind,y_ind,z_ind]) by one.
    """

    _check_diagonal_axis_helper(touches_protein, rank)
    # swap axes to get other two faces
    # use sub-indices to avoid double/triple counting diagonals
    _check_diagonal_axis_helper(
        touches_protein.swapaxes(1,2)[1:,1:,:], rank.swapaxes(1,2)[1:,1:,:])
    _check_diagonal_axis_helper(
        touches_protein.swapaxes(0,2)[1:,1:,:], rank.swapaxes(0,2)[1:,1:,:])


def determine_touches_protein(struct, grid, probe_radius):

    n_x_cells, n_y_cells, n_z_cells = grid.shape[:3]
    x_min, y_min, z_min = grid[0,0,0]
    x_max, y_max, z_max = grid[-1,-1,-1]

    # determine whether each cell touches protein
    touches_protein = np.zeros(
        (n_x_cells, n_y_cells, n_z_cells), dtype=bool)
    radii = np.array(
        [a.element.radius for a in struct.top.atoms])
    for i in range(struct.top.n_atoms):
        coord = struct.xyz[0, i]
        distance_cutoff = probe_radius + radii[i]
        # get sub-grid of cells that could be within cutoff distance of atom
        min_x_cell_ind, max_x_cell_ind, \
        min_y_cell_ind, max_y_cell_ind, \
        min_z_cell_ind, max_z_cell_ind = _get_cell_inds_within_cutoff(
            grid, coord, distance_cutoff)
        subgrid = grid[
            min_x_cell_ind:max_x_cell_ind+1,
            min_y_cell_ind:max_y_cell_ind+1,
            min_z_cell_ind:max_z_cell_ind+1]

        # find cells in subgrid that are actually within distance cutoff
        # and indicate they are not pockets and that they do touch protein
        offset = np.subtract(subgrid, coord)
        offset_sq = np.einsum('ijkl,ijkl->ijk', offset, offset)
        subgrid_inds_within_cutoff = np.where(offset_sq < (distance_cutoff**2))
        # convert to grid inds
        grid_inds_within_cutoff = (
            subgrid_inds_within_cutoff[0]+min_x_cell_ind,
            subgrid_inds_within_cutoff[1]+min_y_cell_ind,
            subgrid_inds_within_cutoff[2]+min_z_cell_ind)
        touches_protein[grid_inds_within_cutoff] = True
    return touches_protein


def get_pocket_cells(
        struct, grid_spacing=0.1, probe_radius=0.07,
        min_rank=3):
    """Places on a grid on a single structure and identifies all the cells that
    are part of a pocket.

    The algorithm lays a grid over the protein. All cells within the
    distance_cutoff of protein atoms (probe radius + atomic VDW)  are
    discarded as they are assumed to be filled with protein cannot be
    pockets and, therefore, not pockets. Each remaining cell is ranked
    by how many scans through it hit protein on both sides. Seven scans
    are performed, one along each of the x/y/z axes and one along each
    of the four diagonals cutting across a cube centered at the given
    cell.

    Parameters
    ----------
    struct : mdtraj.Tractory
        Only uses the first frame.
    grid_spacing : float, default=0.1 (nm)
        The length of each edge of a cell in nm.  So a cell has a volume of
        grid_spacing^3.
    probe_radius : float, default = 0.07 (nm)
        Radius of pocket cells. Cells within this distance and atomic radius
        (in nm) of a protein atom cannot be pockets.
        The default comes from half the radius of water (half of 0.14 nm).
    min_rank : int, default=3
        The minimum rank a cell has to have to be considered part of a pocket.

    Returns
    -------
    pocket_cells : np.ndarray, shape=(n_cells)
        The x,y,z coordinates of all the cells in teh grid that appear to be
        part of a pocket.
    """

    grid = create_grid(struct, grid_spacing)
    n_x_cells, n_y_cells, n_z_cells = grid.shape[:3]
    x_min, y_min, z_min = grid[0,0,0]
    x_max, y_max, z_max = grid[-1,-1,-1]

    # determine whether each cell touches protein
    touches_protein = determine_touches_protein(struct, grid, probe_radius)

    # rank each remaining pocket cell based on the number of scans that
    # pass through protein on each side
    rank = np.zeros(touches_protein.shape)

    # check along x axis
    _check_cartesian_axis(touches_protein, rank)
    # check along y axis, using views to swap x/y axes
    _check_cartesian_axis(touches_protein.swapaxes(0,1), rank.swapaxes(0,1))
    # check along z axis, using views to swap x/z axes
    _check_cartesian_axis(touches_protein.swapaxes(0,2), rank.swapaxes(0,2))

    # for each of 4 diagonals diagonals, need scan out from 3 faces of
    # grid along pos x, pos y, pos z
    _check_diagonal_axis(touches_protein, rank)
    # along neg x, pos y, pos z
    _check_diagonal_axis(touches_protein[::-1,:,:], rank[::-1,:,:])
    # along neg x, neg y, pos z
    _check_diagonal_axis(touches_protein[::-1,::-1,:], rank[::-1,::-1,:])
    # along pos x, neg y, pos z
    _check_diagonal_axis(touches_protein[:,::-1,:], rank[:,::-1,:])

    pocket_inds = np.where(rank>=min_rank)
    pocket_cells = grid[pocket_inds]

    return pocket_cells


def cluster_pocket_cells(pocket_cells, grid_spacing=0.1, min_cluster_size=0):
    """Identify sets of pocket cells that, together, comprise a single
    contiguous pocket.

    Parameters
    ----------
    pocket_cells : np.ndarray, shape=(n_cells)
        The x,y,z coordinates of all the cells in teh grid that appear to be
        part of a pocket.
    grid_spacing : float, default=0.1 (nm)
        The length of each edge of a cell in nm.  So a cell has a volume of
        grid_spacing^3.
    min_cluster_size : int, default=0
        The minimum number of contiguous pocket cells required to constitute
        a pocket.

    Returns
    -------
    sorted_pockets : np.ndarray, shape=(n_cells,3)
        The same x,y,z coordinates specified in the pocket_cells input but
        reordered to match the sorted_cluster_mapping output.
    sorted_cluster_mapping : np.ndarray, shape=(n_cells)
        Integers (0, 1, 2...) specifying which pocket each of the input pocket
        cells belongs to.
    """

    # cluster into contiguous pockets by merging two cells if they are
    # neighbors use a cutoff distance between grid_spacing and
    # 2*grid_spacing to ensure pocket cells are contiguous
    # if there are no pocket cells, return empty arrays
    if pocket_cells.size == 0:
        return np.array([]), np.array([])
    else:
        orig_cluster_mapping = scipy.cluster.hierarchy.fclusterdata(
            pocket_cells, t=grid_spacing*1.5, criterion='distance')

    # make sure numbered from 0, since seem to be numbered from 1
    if orig_cluster_mapping.min() > 0:
        orig_cluster_mapping -= orig_cluster_mapping.min()

    # determine how many pocket cells are in each cluster
    orig_n_clusters = orig_cluster_mapping.max()+1
    num_cells_in_pocket = np.zeros(orig_n_clusters)
    for i in orig_cluster_mapping:
        num_cells_in_pocket[i] += 1

    # renumber so the clusters are ordered from largest to smallest
    sorted_cluster_ids = np.argsort(-num_cells_in_pocket)
    sorted_cluster_mapping = []
    sorted_pockets = []
    i = 0
    next_largest_cluster_size = num_cells_in_pocket[sorted_cluster_ids[i]]
    while next_largest_cluster_size > min_cluster_size:
        inds_in_cluster = np.where(
            orig_cluster_mapping==sorted_cluster_ids[i])[0]
        for j in inds_in_cluster:
            sorted_cluster_mapping.append(i)
            sorted_pockets.append(pocket_cells[j])
        i += 1
        if i == orig_n_clusters:
            break
        next_largest_cluster_size = num_cells_in_pocket[sorted_cluster_ids[i]]

    sorted_cluster_mapping = np.array(sorted_cluster_mapping, dtype=int)
    sorted_pockets = np.array(sorted_pockets)

    return sorted_pockets, sorted_cluster_mapping


def _get_pockets_helper(
        struct, grid_spacing, probe_radius, min_rank, min_cluster_size):
    pocket_cells = get_pocket_cells(
        struct, grid_spacing=grid_spacing, probe_radius=probe_radius,
        min_rank=min_rank)
    sorted_pockets, sorted_cluster_mapping = cluster_pocket_cells(
        pocket_cells, grid_spacing=grid_spacing,
        min_cluster_size=min_cluster_size)
    pockets_as_mdtraj = xyz_to_mdtraj(
        sorted_pockets, cluster_ids=sorted_cluster_mapping)
    return pockets_as_mdtraj


def get_pockets(
        traj, grid_spacing=0.1, probe_radius=0.14, min_rank=5,
        min_cluster_size=0, n_procs=None):
    """Finds the pockets in each frame of a trajectory.

    The algorithm lays a grid over the protein. All cells within the
    distance_cutoff of protein atoms are discarded as they are assumed to be
    filled with protein cannot be pockets and, therefore, not pockets.
    Each remaining cell is ranked by how many scans through it hit protein
    on both sides. Seven scans are performed, one along each of the x/y/z axes
    and one along each of the four diagonals cutting across a cube centered at
    the given cell.

    Parameters
    ----------
    traj : mdtraj.Tractory
    grid_spacing : float, default=0.1 (nm)
        The length of each edge of a cell in nm.  So a cell has a volume of
        grid_spacing^3.
    probe_radius : float, default = 0.14 (nm)
        Radius of pocket cells. Cells within this distance and atomic radius
        (in nm) of a protein atom cannot be pockets.
        The default comes from the radius of water (0.14 nm).
    min_rank : int, default=5
        The minimum rank a cell has to have to be considered part of a pocket.
    min_cluster_size : int, default=0
        Only read every stride-th frame.
    n_procs : int, default=None
        Number of processors to use. If None, will use all availble cpus.

    Returns
    -------
    pockets : List of mdtraj.Trajectory objects
        Each element of the list is an mdtraj.Trajectory representing the
        pockets in a frame in the input Trajectory object. All the cells making
        up a pocket are represented with a carbon atom. Contiguous cells that,
        together, make up a pocket are all contained in the same residue. All
        of these residues are given the name POK. The pockets are listed from
        largest to smallest.
    """

    # determine n_procs
    if n_procs is None:
        n_procs = parallel.auto_nprocs()

    # initialize pocket helper with partial
    pocket_function = partial(
        _get_pockets_helper, grid_spacing=grid_spacing,
        probe_radius=probe_radius, min_rank=min_rank,
        min_cluster_size=min_cluster_size)

    # make pool
    with Pool(processes=n_procs) as pool:
        traj_pockets = pool.map(pocket_function, traj)

    return traj_pockets

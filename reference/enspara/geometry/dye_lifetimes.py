import numpy as np
from enspara.geometry import explicit_r0_calc as r0c
from enspara.msm import builders, synthetic_data
from scipy.optimize import curve_fit
from enspara.msm.transition_matrices import trim_disconnected


def FRET_rate(r, R0, Td):
    """
    Calculate the rate of FRET energy transfer as a function of flurophore parameters

    Attributes
    --------------    
    r : float, 
        Distance between donor and acceptor flurophore, nm
    R0 : float,
        Forster radius, nm
    Td : float,
        fluorescence lifetime of donor in absence of acceptor, ns
    
    Returns
    ---------------
    kRET : float,
    rate of FRET transfer 1/ns
    """
    return((1/Td)*((R0/r)**6))

def calc_dye_radiative_rates(Qd, Td):
    """
    Calculates rate of radiative/non_radiative energy transfer given:

    Attributes
    --------------    
    Qd : float,
        fluorescence quantum yield
    Td : float,
        donor lifetime in absence of acceptor

    Returns
    ---------------
    krad : float,
        Rate of radiative energy decay (flurophore emission), 1/ns
    k_non_radiative : float,
        Rate of non radiative decay, 1/ns
    """
    
    krad = Qd/Td
    k_non_rad = (1/Td) - krad
    
    return(krad, k_non_rad)

def calc_energy_transfer_prob(krad, k_non_rad, kRET, dt):
    """
    Calculates probability of energy transfers given a timestep.
    
    Attributes
    -------------- 
    krad : float,
        Rate  of radiative decay, 1/ns
    k_non_rad : float,
        Rate of non-radiative decay, 1/ns
    kRET : float,
        Rate of energy transfer to acceptor, 1/ns
    dt : float,
        Timestep to evaluate probability over, ns

    Returns
    ---------------
    all_probs : np.array (4,)
        Probabilities of occupying any of the decay states or remaining excited.
    """
    
    p_rad = 1 - np.exp(-krad * dt)
    p_nonrad = 1 - np.exp(-k_non_rad * dt)
    p_RET = 1 - np.exp(-kRET * dt)
    p_remain_excited = 1 - p_rad - p_nonrad - p_RET
    all_probs = np.array([p_rad, p_nonrad, p_RET, p_remain_excited])

    # If dyes are very close can get 100% transfer efficiency
    if p_remain_excited < 0:

        p_remain_excited = np.zeros(1)

        all_probs = np.array([p_rad, p_nonrad, p_RET, p_remain_excited])

        all_probs = all_probs / all_probs.sum()
        
    return(all_probs.flatten())


def resolve_excitation(d_name, a_name, d_tprobs, a_tprobs, d_eqs, a_eqs, 
                        d_centers, a_centers, dye_params, dye_lagtime, dyelibrary,
                        rng_seed=None):

    """
    Runs a Monte Carlo to watch for dye decay and reports back the dye lifetime
    and the decay pathway.

    Attributes
    -------------- 
    d_name : string,
        Name of a flurophore in the enspara dye library
    a_name : string,
        Name of a flurophore in the enspara dye library
    d_tprobs : np.array,
        Transition probabilities from donor dye MSM. Shape (n_states, n_states)
    a_tprobs : np.array,
        Transition probabilities from acceptor dye MSM. Shape (n_states, n_states)
    d_eqs : np.array,
        Equilibrium probabilities from donor dye MSM. shape (n_states)
    a_eqs : np.array,
        Equilibrium probabilities from acceptor dye MSM. shape (n_states)
    d_centers : md.Trajectory,
        MDtraj trajectory of donor dye conformations. shape (n_states)
    a_centers : md.Trajectory,
        MDtraj trajectory of acceptor dye conformations. shape (n_states)
    dye_params : tuple,
        Dye-pair overlap, Dye quantum yield, Donor dye lifetime (absent acceptor)
        Direct output of r0c.get_dye_overlap
    dye_lagtime : float,
        Lagtime for the dye MSMs in ns.
    rng_seed : int, default = None
        seed for numpy.random.default_rng (for testing)

    Returns
    ---------------
    steps : int,
        Number of dye MSM steps it took for decay to occur.
    d_state : string,
        How the dye decayed. radiative = donor emission, energy_transfer = FRET
        non_radiative = no visible decay.
    dtraj : np.array,
        MSM centers visited by the donor dye while dye was excited. Shape, (n_states)
    atraj : np.array,
        MSM centers visited by the acceptor dye while donor was excited. Shape, (n_states)    
    """

    #Introduce a new random seed in each location otherwise pool with end up with the same seeds.
    rng=np.random.default_rng(rng_seed)
    
    #Extract dye parameters, calculate constant transfer rates
    J, Qd, Td = dye_params
    
    krad = Qd/Td #Constant
    k_non_rad = (1/Td) - krad #Constant
    
    # Choose a random starting state
    dtrj,atrj =[],[]
    dtrj.append(rng.choice(np.arange(d_tprobs.shape[0]), p=d_eqs))
    atrj.append(rng.choice(np.arange(a_tprobs.shape[0]), p=a_eqs))

    # Convert centers to dye vectors
    d_coords = r0c.assemble_dye_r_mu(d_centers, d_name, dyelibrary)
    a_coords = r0c.assemble_dye_r_mu(a_centers, a_name, dyelibrary)
    
    n_dcenters = len(d_centers)
    n_acenters = len(a_centers)

    # Define potential donor resolution pathways
    dye_outcomes = np.array(['radiative','non_radiative','energy_transfer','excited'])

    #Start up the markov chain

    d_state = 'excited'
    steps = 0

    #Run the markov chain
    while d_state == 'excited':
        #Calculate k2, r, R0, and kRET for new dye position
        k2, r = r0c.calc_k2_r(d_coords[dtrj[steps]],a_coords[atrj[steps]])
        R0 = r0c.calc_R0(k2, Qd, J)
        kRET = FRET_rate(r, R0, Td)

        #Calculate probability of each decay  mechanism
        transfer_probs = calc_energy_transfer_prob(krad, k_non_rad, kRET, dye_lagtime)
        
        #Pick a decay mechanism according to probabilities
        d_state = rng.choice(dye_outcomes, p=transfer_probs)

        #Pick new dye positions based on probability of hopping MSM states
        dtrj.append(
            rng.choice(n_dcenters,p=d_tprobs[dtrj[-1],:]))
        atrj.append(
            rng.choice(n_acenters,p=a_tprobs[atrj[-1],:]))
        
        #Add a new step to our counter
        steps+=1        
            
    return([steps, d_state, np.array(dtrj), np.array(atrj)])

def make_dye_msm(centers, t_counts, pdb, resseq, dyename, dyelibrary, 
    center_n=None, outdir='./', save_dye_xtc = False):
    """
    Labels a protein residue with a given dye and returns a new dye MSM
    Attributes
    -----------
    centers, md.Trajectory
        Trajectory of dye centers
    t_counts, np.array (n_centers, n_centers)
        transition counts from dye MSM
    pdb, md.Trajectory
        structure of protein to label
    resseq, int
        ResSeq number to label of pdb
    dyename, string
        name of dye in enspara dye library
    dyelibrary, dictionary
        enspara dye library
    center_n, int
        Protein center_number being labeled (for bookkeeping)
    outdir, path
        where to save output (optional)
    save_dye_xtc, bool default = False
        Save an XTC of the dye positions?
    
    Returns
    -----------
    tprobs, np.array (n_centers, n_centers)
        Transition probabilities for the dye MSM
    eqs, np.array (n_centers,)
        Equilibrium probabilities for the dye MSM
    dye_indicies, np.array len(dyes without steric clash)
        Indicies of centers that don't have steric clashes.
    """
    
    # Align dye to PDB structure
    centers.xyz = r0c.align_full_dye_to_res(pdb, centers, resseq, dyename, dyelibrary)
    
    # Find dye positions with no steric clashes
    dye_indicies = r0c.remove_touches_protein_dye_traj(pdb, centers, resseq)
    
    if len(dye_indicies)==0:
        #No non-clashing label positions
        return np.array([0]),np.array([0]), np.array([])
    
    if save_dye_xtc:
        #Need to think of a clever way to convert dtrj steps to the shortened dye xtc.
        centers[dye_indicies].save_xtc(f'{outdir}/center{center_n}-aligned-to-{resseq}-{"".join(dyename.split(" "))}.xtc')
        #centers.save_xtc(f'{outdir}/center{center_n}-aligned-to-{resseq}-{"".join(dyename.split(" "))}.xtc')
    
    #Reverse the indicies to get the bad ones
    all_indicies = np.arange(len(centers))
    bad_indicies = all_indicies[~np.isin(all_indicies,dye_indicies,assume_unique=True)]
    
    #Purge the t_counts of the bad indicies
    new_tcounts = r0c.remove_bad_states(bad_indicies, t_counts)

    #Rebuild the dye MSM
    counts, tprobs, eqs = builders.normalize(new_tcounts,calculate_eq_probs=True)
    
    return(tprobs, eqs, dye_indicies)

def calc_lifetimes(pdb_center_num, d_centers, d_tcounts, a_centers, a_tcounts, resSeqs, dyenames, 
                   dye_lagtime, n_samples=1000, outdir='./', save_dye_trj=False, save_dye_msm=False,
                   rng_seed=None):

    """
    Takes a protein pdb structure, dye trajectories/MSM, and labeling positions and calculates expected
    dye-emission event and lifetime for n_samples. Dye is allowed to move during the monte-carlo according
    to the MSM probabilities and transfer probabilities are iteratively updated.

    Attributes
    -----------
    pdb_center_num, zip(md.Trajectory, int)
        PDB to model dyes on. Int is the center number for book keeping.
    d_centers, md.Trajectory, size(n_states)
        MSM centers for the donor dye.
    d_tcounts, np.array (n_centers, n_centers)
        T_counts for donor dye msm.
    a_centers, md.Trajectory, size(n_states)
        MSM centers for the acceptor dye.
    a_tcounts, np.array (n_centers, n_centers)
        T_counts for acceptor dye msm.
    resSeqs, list of ints, len(2)
        resSeqs to label. Donor will go on first residue and acceptor on second.
    dyenames, list of strings, len(2)
        names of dyes to label residues with. Donor is the first dyename and acceptor the second.
        Should be in the enspara dye library.
    dye_lagtime, float
        Lagtime used to build the dye MSMs.
    n_samples, int. Default = 1000
        Number of monte carlo simulations to run.
        Warning- this can get expensive if very large. 1000 takes ~ 5 minutes to run on my computer.
    outdir, path. Default = './'
        Where to save things to.
    save_dye_trj, bool, default=False
        Save a trajectory of the dye conformations that didn't have steric clashes?
    save_dye_msm, bool, default=False
        Save the rebuilt MSM of the dye conformations that didn't have steric clashes?
    rng_seed, int, default=None
        seed for np.rng, for testing!

    Returns
    -----------
    lifetimes, np.array (n_states)
        How long did it take for decay to occur?
    outcomes, np.array (n_states)
        How did the decay occcur? 
        Radiative = donor flurophore emission
        non-radiative = no observed emission
        energy_transfer = acceptor flurophore emission
    """

    dyelibrary = r0c.load_library()
    dye_params = r0c.get_dye_overlap(dyenames[0], dyenames[1])
    
    pdb, center_n = pdb_center_num
    
    #Model dye onto residue of interest and remake MSM.
    d_tprobs, d_mod_eqs, d_indxs = make_dye_msm(d_centers,d_tcounts, pdb[0], resSeqs[0], dyenames[0], 
        dyelibrary, center_n = center_n, outdir=outdir,save_dye_xtc=save_dye_trj)

    a_tprobs, a_mod_eqs, a_indxs = make_dye_msm(a_centers,a_tcounts, pdb[0], resSeqs[1], dyenames[1], 
        dyelibrary, center_n = center_n, outdir=outdir,save_dye_xtc=save_dye_trj)
    
    #Check if no feasible labeling positions
    if np.sum(a_mod_eqs) == 0 or np.sum(d_mod_eqs) == 0:
        #return an empty list, could not label one of the positions.
        return [],[]
    
    if save_dye_msm:
        np.save(f'{outdir}/center{center_n}-{"".join(dyenames[0].split(" "))}-eqs.npy',d_mod_eqs)
        np.save(f'{outdir}/center{center_n}-{"".join(dyenames[1].split(" "))}-eqs.npy',a_mod_eqs)
        np.save(f'{outdir}/center{center_n}-{"".join(dyenames[0].split(" "))}-tps.npy',d_tprobs)
        np.save(f'{outdir}/center{center_n}-{"".join(dyenames[1].split(" "))}-tps.npy',a_tprobs)

    events = np.array([resolve_excitation(dyenames[0], dyenames[1], d_tprobs, a_tprobs, d_mod_eqs, a_mod_eqs, 
                        d_centers, a_centers, dye_params, dye_lagtime, dyelibrary, rng_seed) for i in range(n_samples)], dtype='O')
    
    if save_dye_trj:
        #Dyes are reindexed, events are original indexing. Search to find the 
        #corresponding value in the reindexed array.
        if len(d_indxs) > 0:
            dtrj = np.array([np.searchsorted(d_indxs, event) for event in events[:,2]])
            np.save(f'{outdir}/center{center_n}-{dyenames[0]}-dtrj.npy',dtrj)
        if len(a_indxs) > 0:
            atrj = np.array([np.searchsorted(a_indxs, event) for event in events[:,3]])
            np.save(f'{outdir}/center{center_n}-{dyenames[1]}-atrj.npy',atrj)

    lifetimes = events[:,0].astype(float)*dye_lagtime #ns
    outcomes = events[:,1]
    
    return lifetimes, outcomes

def _sample_lifetimes_guarenteed_photon(states, lifetimes, outcomes, rng_seed=None):
    """
    Samples dye lifetimes/outcomes such as outputs of calc_lifetimes at specific MSM states.
    Returns random, observed lifetime/outcome for that MSM state.
    Guarentees observation of a photon (donor or acceptor) as opposed to non-radiative decay.

    Attributes
    -----------
    states, np.array
        MSM states to pull lifetime/excitation outcomes from
    lifetimes, ragged np.array (n_centers, n_samples (or 0))
        Lifetimes of photon excitement
    outcomes, ragged np.array (n_centers, n_samples (or 0))
        Outcome of dye excitation (matched with lifetimes, above).
    rng_seed, int, default=None
        seed for np.rng, for testing.

    Returns
    -----------
    photons, np.array (n_states)
        Observations of acceptor photon (1) or donor photon (0)
    lifetime, np.array (n_states)
        Time since excitation that photon was observed
    """

    rng=np.random.default_rng(rng_seed)

    photons, lifetime = [],[]
    for state in states:
        event_n = rng.choice(len(lifetimes[state]))

        #If non-radiative, redraw since we're using experimental photon arrival times
        while outcomes[state][event_n]=='non_radiative':
            event_n = rng.choice(len(lifetimes[state]))
        if outcomes[state][event_n]=='energy_transfer':
            photons.append(1)
            #Acceptor event
        elif outcomes[state][event_n]=='radiative':
            photons.append(0)
            #Donor event
        else:
            #Something went wrong.
            print('Something seems wrong with your outcomes array, expected outcomes of:')
            print(f'non_radiative, energy_transfer, or radiative. Got {outcomes[state][event_n]}.')
            print(f'For reference, state was {state}, and event number {event_n}', flush=True)
            exit()
        lifetime.append(lifetimes[state][event_n])

    photons = np.array(photons)
    lifetime = np.array(lifetime)
    return(photons, lifetime)

def sample_lifetimes_guarenteed_photon(frames, t_probs, eqs, lifetimes, outcomes, rng_seed=None):

    """
    Samples dye lifetimes and excitation outcomes given protein MSM frames and a protein MSM.
    Guarentees observation of a photon, non-radiative decay events ignored.

    Attributes
    -----------
    frames, np.array shape (n_frames,)
        Steps through MSM when photons are observed
    t_probs, np.array, shape (n_states, n_states)
        Transition probabilities of the protein MSM
    eqs, np.array, shape (n_states,)
        Equilibrium probabilities of the protein MSM
    lifetimes, ragged np.array (n_centers, n_samples (or 0))
        Lifetimes of photon excitement for each protein MSM center
    outcomes, ragged np.array (n_centers, n_samples (or 0))
        Outcome of dye excitation (matched with lifetimes, above).
    rng_seed, int, default=None
        random seed for np.rng (for testing purposes)

    Returns
    -----------
    photons, np.array (n_states)
        Observations of acceptor photon (1) or donor photon (0)
    lifetime, np.array (n_states)
        Time since excitation that photon was observed
    """

    #Introduce a new random seed in each location otherwise pool with end up with the same seeds.
    rng=np.random.default_rng(rng_seed)

    # determine number of frames to sample MSM
    n_frames = np.amax(frames) + 1

    # sample transition matrix for trajectory
    initial_state = rng.choice(np.arange(t_probs.shape[0]), p=eqs)    

    #Build a synthetic trajectory from the MSM
    trj = synthetic_data.synthetic_trajectory(t_probs, initial_state, n_frames)

    #Pull lifetimes and outcomes for each MSM frame
    photons, lifetimes = _sample_lifetimes_guarenteed_photon(trj[frames],lifetimes,outcomes)

    return photons, lifetimes

def remake_prot_MSM_from_lifetimes(lifetimes, prot_tcounts, resSeqs, dyenames, outdir='./', prot_eqs=None):
    """
    Rebuilds protein MSM removing states that had steric clashes with dyes.
    Attributes
    -----------
    lifetimes, np.array
        ragged array of dye lifetimes shape (n_prot_states, n_sampled_lifetimes or 0)
    prot_tcounts, np.array (n_centers, n_centers)
        T_counts from protein MSM
    outdir, path
        Where to save data to. Default = ./
    prot_eqs, np.array (n_centers, n_centers)
        Equilibrium probabilities of protein MSM, for nice bookkeeping.
        Default = None

    Returns
    -----------
    new_tprobs, np.array (n_centers, n_centers)
        Transition probabilities for the clash-free protein MSM
    new_eqs, np.array (n_centers,)
        Equilibrium probabilities for the clash-free protein MSM
    """

    # Find which states couldn't be labeled:
    bad_states = r0c.find_dyeless_states(lifetimes)

    print(f'\n{len(bad_states)} of {len(prot_tcounts)} protein states had steric clashes for labeling pair: {resSeqs[0]}-{resSeqs[1]}.',
        flush=True)

    if len(bad_states)/len(prot_tcounts) > 0.2:
        print(f'WARNING! Labeling resulted in loss of {np.round(100*len(bad_states)/len(prot_tcounts))}%') 
        print(f'of your MSM states for labeling pair: {resSeqs[0]}-{resSeqs[1]}. \n', flush=True)

    if prot_eqs is not None:
        if len(bad_states) == 0:
            print(f'No equilibrium probability lost for labeling pair: {resSeqs[0]}-{resSeqs[1]}.')
        else:
            print(f'This was {np.round(100*np.sum(prot_eqs[bad_states]),2)}% of the original equilibrium probability')
            print(f'for labeling pair: {resSeqs[0]}-{resSeqs[1]}.')

            if np.sum(prot_eqs[bad_states]) > 0.2:
                print(f'WARNING! Lots of equilibrium probability lost. \n',flush=True)

    print(f'Remaking MSM for labeling pair: {resSeqs[0]}-{resSeqs[1]}.',flush=True)
    # remove bad states from protein MSM
    trimmed_tcounts = r0c.remove_bad_states(bad_states, prot_tcounts)

    #remake protein MSM
    new_tcounts, new_tprobs, new_eqs = builders.normalize(trimmed_tcounts, calculate_eq_probs=True)

    print(f'Saving modified MSM here: {outdir}.', flush=True)
    np.save(f'{outdir}/{resSeqs[0]}-{"".join(dyenames[0].split(" "))}-{resSeqs[1]}-{"".join(dyenames[1].split(" "))}-eqs.npy',new_eqs)
    np.save(f'{outdir}/{resSeqs[0]}-{"".join(dyenames[0].split(" "))}-{resSeqs[1]}-{"".join(dyenames[1].split(" "))}-t_prbs.npy',new_tprobs)
    return new_tprobs, new_eqs

def remake_msms(resSeq, prot_tcounts, dye_dir, dyenames, orig_eqs, outdir):
    lifetime_outcomes_path = f'{dye_dir}/events-{resSeq[0]}-{resSeq[1]}.npy'

    #Load simulated events
    lifetime_outcomes = np.load(lifetime_outcomes_path, allow_pickle=True)

    #Parse the outcomes
    lifets = lifetime_outcomes[:,0]
    outcomes = lifetime_outcomes[:,1]

    #Remake the protein MSM
    new_tprobs, new_eqs = remake_prot_MSM_from_lifetimes(lifets, prot_tcounts, 
                                                resSeq, dyenames, outdir= f'{outdir}/MSMs', prot_eqs = orig_eqs)

def run_mc(resSeq, prot_tcounts, dyenames, MSM_frames, dye_dir, outdir, time_correction):
    import os
    
    lifetime_outcomes_path = f'{dye_dir}/events-{resSeq[0]}-{resSeq[1]}.npy'

    #Load simulated events
    lifetime_outcomes = np.load(lifetime_outcomes_path, allow_pickle=True)

    #Parse the outcomes
    lifets = lifetime_outcomes[:,0]
    outcomes = lifetime_outcomes[:,1]

    new_tprobs = np.load(f'{outdir}/MSMs/{resSeq[0]}-{"".join(dyenames[0].split(" "))}-{resSeq[1]}-{"".join(dyenames[1].split(" "))}-t_prbs.npy')
    new_eqs = np.load(f'{outdir}/MSMs/{resSeq[0]}-{"".join(dyenames[0].split(" "))}-{resSeq[1]}-{"".join(dyenames[1].split(" "))}-eqs.npy')

    print(f'Running MC sampling for {resSeq[0]}-{resSeq[1]} and time factor {time_correction}.', flush=True)
    #Sample the protein MSM to get bursts
    sampling = np.array([
        sample_lifetimes_guarenteed_photon(
        frames, new_tprobs, new_eqs, lifets, outcomes) for frames in MSM_frames], dtype='O')

    print(f'Extracting FEs and lifetimes for {resSeq[0]}-{resSeq[1]} and time factor {time_correction}.', flush=True)

    FEs, d_lifetimes, a_lifetimes = extract_fret_efficiency_lifetimes(
        sampling)

    print(f'Saving results for {resSeq[0]}-{resSeq[1]} and time factor {time_correction}.', flush=True)

    #Convert from photons to FRET E
    FEs = np.array([np.sum(FE)/len(FE) for FE in sampling[:,0]])
    os.makedirs(f'{outdir}/Lifetimes', exist_ok=True)
    os.makedirs(f'{outdir}/FEs', exist_ok=True)
    np.save(f'{outdir}/FEs/FE-{resSeq[0]}-{resSeq[1]}-{time_correction}.npy', FEs)
    np.save(f'{outdir}/Lifetimes/d_lifetimes-{resSeq[0]}-{resSeq[1]}-{time_correction}.npy', d_lifetimes)    
    np.save(f'{outdir}/Lifetimes/a_lifetimes-{resSeq[0]}-{resSeq[1]}-{time_correction}.npy', a_lifetimes)

def calc_per_state_FE(events):
    """
    Takes an events array from calc_lifetimes and returns the FRET efficiency per protein state.

    Attributes
    ____________
    events, np.arrray shape (n_states, 2, n_samples)
        Dye lifetimes and outcomes array from calc_lifetimes

    Returns
    ____________
    per_state, np.array shape (n_states)
        FRET efficiency for each state, averaged over the number of samples.
    """
    per_state=[]
    for event in events[:,1]:
        if len(event)==0:
            #If state had no label pairs, return that the FE is nan
            per_state.append(np.nan)
        else:
            acceptors = np.count_nonzero(event=='energy_transfer')
            donors = np.count_nonzero(event=='radiative')
            per_state.append(acceptors/(donors+acceptors))

    return np.array(per_state)

def single_exp_decay(t, Io, tau):
    """
    Function for a single exponential decay.
    Attributes
    -------------- 
    t : np.array
        Time
    Io : float
        Initial maximum
    tau : float
        lifetime
    """
    
    return Io*np.exp(-t/tau)

def fit_single_exp(t,y,p0):
    """
    Fits a single exponential decay curve to data, returns optimum parameters.
    """
    opt_params, parm_cov = curve_fit(single_exp_decay, t, y, p0=p0)
    Io, tau = opt_params
    return Io, tau

def fit_lifetimes_single_exp(lifetimes, donor_name=None, hist_bins = 100, hist_range=(0,25)):
    """
    Fits decay lifetimes to a single exponential decay making reasonable initial guesses
    
    Attributes
    -------------- 
    lifetimes : np.array, shape (n_lifetimes,)
        Lifetimes of dye
    donor name : string, default = None
        Dye in enspara library. Used to get initial guess for lifetime
        Makes more accurate initial guess. If not passed, we make an ok initial guess.
    hist_bins : int, defaults = 100
        How many bins to histogram lifetimes into?
    hist_range: tuple of ints, default = (0,25)
        What range should lifetimes be histogrammed over?
    
    Returns
    -------------
    t : np.array
        Lifetime histogram bin center values
    counts : np.array
        Counts associated with histogram bins
    fit_I : float
        Initial amplitude of decay
    fit_tau : float
        Lifetime of the decay
    """
    
    #Histogram the lifetimes
    counts, edges = np.histogram(lifetimes, range=hist_range, bins=hist_bins)

    bin_w = edges[1]-edges[0]
    t = edges[:-1]+bin_w/2

    #Guess initial parameters
    #Only going to use this to pull donor lifetime, so can pass donor name twice
    if donor_name==None:
        Td = 4 #reasonable lifetime guess given most single molecule dyes.
    else:
        J, QD, Td = r0c.get_dye_overlap(donor_name, donor_name)
    
    Io = np.amax(counts)

    fit_I, fit_tau = fit_single_exp(t, counts, p0 = np.array([Io, Td[0]]))
    
    return(t, counts, fit_I, fit_tau)

def double_exp_decay(t, Io1, Io2, tau1, tau2):
    """
    Function for a single exponential decay.
    Attributes
    -------------- 
    t : np.array
        Time
    Io1 : float
        Initial maximum guess for first decay curve
    Io2 : float
        Initial maximum guess for second decay curve
    tau1 : float
        Initial lifetime guess for first lifetime
    tau2 : float
        Initial lifetime guess for second lifetime
    """
    return Io1*np.exp(-t/tau1) + Io2*np.exp(-t/tau2)

def fit_double_exp(t,y,p0):
    """
    Fits a double exponential decay curve to data, returns optimum parameters.
    """ 
    opt_params, parm_cov = curve_fit(double_exp_decay, t, y, p0=p0)
    Io1, Io2, tau1, tau2 = opt_params
    return Io1, Io2, tau1, tau2

def fit_lifetimes_double_exp(lifetimes, donor_name=None, hist_bins = 100, hist_range=(0,25)):
    """
    Fits decay lifetimes to a double exponential decay making reasonable initial guesses
    
    Attributes
    -------------- 
    lifetimes : np.array, shape (n_lifetimes,)
        Lifetimes of dye
    donor name : string, default = None
        Dye in enspara library. Used to get initial guess for lifetime
        Makes more accurate initial guess. If not passed, we make an ok initial guess.
    hist_bins : int, defaults = 100
        How many bins to histogram lifetimes into?
    hist_range: tuple of ints, default = (0,25)
        What range should lifetimes be histogrammed over?
        
    Returns
    -------------
    t : np.array
        Lifetime histogram bin center values
    counts : np.array
        Counts associated with histogram bins
    fit_I1 : float
        Initial amplitude of first decay curve7
    fit_I2 : float
        Initial amplitude of second decay curve
    fit_tau1 : float
        Lifetime of the first decay
    fit_tau2 : float
        Lifetime of the second decay
    """
    
    #Histogram the lifetimes
    counts, edges = np.histogram(lifetimes, range=hist_range, bins=hist_bins)

    bin_w = edges[1]-edges[0]
    t = edges[:-1]+bin_w/2

    #Guess initial parameters
    #Only going to use this to pull donor lifetime, so can pass donor name twice
    if donor_name==None:
        Td = 4 #reasonable lifetime guess given most single molecule dyes.
    else:
        J, QD, Td = r0c.get_dye_overlap(donor_name, donor_name)
        
    Io = np.amax(counts)

    fit_I1, fit_I2, fit_tau1, fit_tau2 = fit_double_exp(t, counts, p0 = np.array([Io/2, Io/2, Td[0], Td[0]]))
    
    return(t, counts, fit_I1, fit_I2, fit_tau1, fit_tau2)

def extract_fret_efficiency_lifetimes(lifetime_samples):
    """
    Extracts FRET efficiency and donor/acceptor lifetimes from 
    sample_lifetimes_guarenteed_photon arrays.
    
    Attributes
    -------------- 
    lifetime_samples : np.array, shape (n_bursts, 2, variable)
        Ragged array of photons and lifetimes for each burst.
        Should be able to directly pass the output of repeated calls
        to sample_lifetimes_guarenteed_photon to this!
        
    Returns
    -------------
    FEs : np.array, shape (n_bursts)
        Average lifetime for each burst
    d_lifetimes : np.array (n_bursts, variable)
        Lifetimes associated with each donor photon in a burst.
    a_lifetimes : np.array (n_bursts, variable)
        Lifetimes associated with each donor photon in a burst.
    """
    
    FEs = np.array([np.sum(burst)/len(burst) for burst in lifetime_samples[:,0]])
    
    d_lifetimes, a_lifetimes=[],[]
    for burst in lifetime_samples:
        d_lifetimes.append(burst[1][np.where(burst[0]==0)[0]])
        a_lifetimes.append(burst[1][np.where(burst[0]==1)[0]])

    d_lifetimes=np.array(d_lifetimes, dtype=object)
    a_lifetimes=np.array(a_lifetimes, dtype=object)
    return FEs, d_lifetimes, a_lifetimes

def fit_lifetimes_single_exp_high_throughput(lifetimes, donor_name=None, hist_bins = 100, hist_range=(0,25)):
    """
    Fits decay lifetimes to a single exponential decay making reasonable initial guesses
    Some run-time handling in case of bad fitting (returns HIGH half life.)
    
    Attributes
    -------------- 
    lifetimes : np.array, shape (n_lifetimes,)
        Lifetimes of dye
    donor name : string, default = None
        Dye in enspara library. Used to get initial guess for lifetime
        Makes more accurate initial guess. If not passed, we make an ok initial guess.
    hist_bins : int, defaults = 100
        How many bins to histogram lifetimes into?
    hist_range: tuple of ints, default = (0,25)
        What range should lifetimes be histogrammed over?
    
    Returns
    -------------
    t : np.array
        Lifetime histogram bin center values
    counts : np.array
        Counts associated with histogram bins
    fit_I : float
        Initial amplitude of decay
    fit_tau : float
        Lifetime of the decay
    """
    
    #Histogram the lifetimes
    counts, edges = np.histogram(lifetimes, range=hist_range, bins=hist_bins)

    bin_w = edges[1]-edges[0]
    t = edges[:-1]+bin_w/2

    #Guess initial parameters
    #Only going to use this to pull donor lifetime, so can pass donor name twice
    if donor_name==None:
        Td = 4 #reasonable lifetime guess given most single molecule dyes.
    else:
        J, QD, Td = r0c.get_dye_overlap(donor_name, donor_name)
    
    Io = np.amax(counts)

    try:
        fit_I, fit_tau = lifetime_fns.fit_single_exp(t, counts, p0 = np.array([Io, Td[0]]))
    except RuntimeError:
        return(t, counts, 0, 100)
    
    return(t, counts, fit_I, fit_tau)

import copy
import itertools
import numpy as np
import mdtraj as md


def rmsf_calc(centers, populations=None, ref_frame=0, per_residue=True):
    """Calculated the population weighted RMSF from a frame in a MSM

    Attributes
    ----------
    centers : md.trajectory, shape=(n_states,),
        The cluster centers to use for RMSF calculations.
    populations : array-like, shape=(n_states,), default=None,
        The population of each state in the MSM. If not supplied,
        all frames are weighted equally.
    ref_frame : int, default=0,
        The reference state in the MSM to use for calculation
        deviations from. If not supplied, first frame is used.
    per_residue : bool, default=True,
        Optionally returns rmsf averaged over residues. If False, will
        return the rmsf per atom.

    Returns
    ----------
    rmsfs : nd.array, shape=(n_residues,),
        Returns the population weighted RMSF of each residue.
    """
    # align all states to reference frame (superpose works in place:
    # align a private copy, not the caller's trajectory)
    centers = copy.deepcopy(centers).superpose(centers[ref_frame])

    # if no populations are supplied, generate a uniform distribution
    if populations is None:
        populations = np.ones(centers.n_frames) / centers.n_frames

    # get differences between coordinates
    diffs = centers.xyz - centers.xyz[ref_frame]

    # dot product differences
    dists_per_atom_sq = np.einsum('ijk,ijk->ij', diffs, diffs)

    if per_residue:
        # obtain indices of all atoms partitioned by residues
        atom_iis_per_resi = np.array(
            [[a.index for a in r.atoms] for r in centers.top.residues])

        # average the dot products within each residue
        avg_resi_dists = np.array(
            [
                np.mean(dists_per_atom_sq[:, iis], axis=1)
                for iis in atom_iis_per_resi])

        # population weight the RMSFs
        rmsfs = np.sqrt((avg_resi_dists*populations).sum(axis=1))
    else:
        # population weight rmsfs per atom
        rmsfs = np.sqrt((dists_per_atom_sq*populations[:,None]).sum(axis=0))

    return rmsfs


def _bfactors_from_rmsfs(pdb, rmsfs):
    """Given a PDB and a list of RMSFs, returns a list of the rmsf
    values in the shape of all the atoms in the PDB"""
    bfactors = np.concatenate(
        [
            list(itertools.repeat(rmsf, r.n_atoms))
            for rmsf,r in zip(rmsfs, pdb.top.residues)])
    return bfactors

import glob
import mdtraj as md
import numpy as np
import os
import scipy
from functools import partial
from multiprocessing import Pool
from ..msm.synthetic_data import synthetic_trajectory
from .. import ra
from ..exception import DataInvalid
from scipy.stats import kurtosis, entropy, skew

def FRET_efficiency(dists, r0, offset=0):
    #Convert distance into FRET efficiency given a Forster radius (r0) and distance offset
    r06 = r0**6
    return r06 / (r06 + ((dists + offset)**6))


def make_distribution(probs, bin_edges):
    probs_norm = ra.RaggedArray([l/l.sum() for l in probs])
    dist_vals = (bin_edges[:,1:] + bin_edges[:,:-1]) / 2.
    dist_distribution = ra.RaggedArray(
        np.vstack([dist_vals._data, probs_norm._data]).T, lengths=probs_norm.lengths)
    return dist_distribution

def load_dye(dye):
    """Loads a FRET dye point cloud.

    Attributes
    ----------
    dye : str,
        The path or name of a dye file. i.e. 'AF488'.

    Returns
    ----------
    dye_pdb : md.Trajectory,
        An MDTraj object representing the pdb of a FRET dye point cloud.
    """
    # obtain paths for dye folder and potential dye PDB file
    geometry_path = os.path.split(
        os.path.abspath(__file__))[0]
    dye_folder_path = os.path.join(
        os.path.split(geometry_path)[0], 'data', 'dyes')
    dye_path = os.path.join(dye_folder_path, '%s.pdb' % dye)
    # check if str supplied is a path to a file
    if os.path.exists(dye):
        dye_pdb = md.load(dye)
    # otherwise try and load from data folder
    elif os.path.exists(dye_path):
        dye_pdb = md.load(dye_path)
    # print error message
    else:
        dye_path_names = np.sort(glob.glob(os.path.join(dye_folder_path, '*.pdb')))
        dye_names = ", ".join(
            [
                os.path.split(p)[-1].split('.pdb')[0]
                for p in dye_path_names]) 
        raise DataInvalid(
            '%s is not a path to a pdb, have you tried using an ENSPARA provided dye?')
            #User should never see this error when using the app.
    return dye_pdb

def norm_vec(vec):
    """Divides vector by its magnitude to obtain unit vector.
    """
    # depending on shape, gets list of unit vectors or single unit vector
    try:
        unit = vec / np.sqrt(np.einsum('ij,ij->i', vec, vec))[:,None]
    except:
        unit = vec / np.sqrt(np.dot(vec, vec))
    return unit


def divide_chunks(l, n):
    """Returns `n`-sized chunks from `l`.
    """
    # looping till length l 
    for i in range(0, len(l), n):  
        yield l[i:i + n] 


def int_norm(xs, ys):
    """Normalizes ys so that integral is unity.
    """
    dx = xs[1] - xs[0]
    I = np.sum(ys*dx)
    return (ys / I)


def determine_rot_mat(pdb, resSeq):
    """Determines the rotation matrix needed to align coordinates
    to a specific residue. Calculates rotation centered around CA,
    with CB pointing to the z-axis and N laying in the z-y plane.

    Attributes
    ----------
    pdb : md.Trajectory,
        MDTraj trajectory object containing the pdb coordinates and topology.
    resSeq : int,
        The residue sequence number to use for calculating rotation matrix.

    Returns
    ----------
    M : nd.array, shape=(3,3),
        The rotation matrix.
    ca_coord : nd.array, shape=(3, )
        The CA coordinate of the specified residue number.
    """
    # Determine the CB coordinate. Calculates where it should be if not
    # present (i.e. gly or pro).
    cb_coord = calc_cb_coords(pdb, resSeqs=resSeq)[0]
    # Extracts CA and N coordinates
    ca_coord = pdb.xyz[0, find_atom_index(pdb, resSeq, 'CA')]
    n_coord = pdb.xyz[0, find_atom_index(pdb, resSeq, 'N')]
    # z axis is in the direction of the CB coordinate from the CA coordinate
    z_vec = norm_vec(cb_coord - ca_coord)
    # x axis is normal to the z axis and the y axis (N coordinate lays on
    # this plane)
    x_vec = norm_vec(np.cross(norm_vec(n_coord - ca_coord), z_vec))
    # obtain y vector as orthonormal to other vectors
    y_vec = norm_vec(np.cross(z_vec, x_vec))
    # obtain rotation matrix
    M = np.array([x_vec, y_vec, z_vec])
    return M, ca_coord


def find_atom_index(pdb, resSeq, atom_name):
    """Helper function to determine the index of an atom
    with a specified resSeq and atom-name"""
    ii = None
    # iterate over residues
    for residue in pdb.top.residues:
        # if the correct resSeq, iterate over atoms
        if residue.resSeq == resSeq:
            for atom in residue.atoms:
                # if correct atom name, store index and break
                if atom.name == atom_name:
                    ii = atom.index
                    break
            else:
                continue
            break
    return ii


def calc_cb_coords(pdb, resSeqs=None):
    """Calculates the CB coordinates from CA, C, and N coordinates.

    Attributes
    ----------
    pdb : md.Trajectory,
        MDTraj trajectory object containing the pdb coordinates and topology.
    resSeqs : list, default=None,
        The residues to determine CB coordinates. If none are supplied, will
        calculate a CB coordinate for every residue.

    Returns
    cb_coords : ndarray, shape=(n_coordinates, 3),
        A CB coordinate for every residue supplied.
    """
    l = 0.153 # average CA-CB distance
    # get CA, N, and C coordinates for each residue
    top = pdb.topology
    # grab indices of coordinates
    if resSeqs is None:
        ca_iis = top.select("name CA")
        c_iis = top.select("name C")
        n_iis = top.select("name N")
    else:
        resSeqs = np.array(resSeqs).reshape(-1)
        ca_iis = np.array(
            [find_atom_index(pdb, r, 'CA') for r in resSeqs])
        c_iis = np.array(
            [find_atom_index(pdb, r, 'C') for r in resSeqs])
        n_iis = np.array(
            [find_atom_index(pdb, r, 'N') for r in resSeqs])
    ca_coords = pdb.xyz[0][ca_iis]
    c_coords = pdb.xyz[0][c_iis]
    n_coords = pdb.xyz[0][n_iis]
    # determine the vector normal to the plane defined by the points CA, N, 
    # and O.
    norm_vec_1 = norm_vec(ca_coords - n_coords)
    norm_vec_2 = norm_vec(ca_coords - c_coords)
    normed_vec = norm_vec(np.cross(norm_vec_1, norm_vec_2))
    # determine the vector that points out from the CA (perpendicular to the
    # above vector.
    ca_vec = norm_vec(ca_coords - ((n_coords+c_coords)/2.))
    # get point along vector towards CB with length l
    theta = np.pi/6.
    ca_dist = np.sin(theta)*l
    norm_dist = np.cos(theta)*l
    cb_coordinates = ca_coords + (ca_dist * ca_vec) + (norm_dist * normed_vec)
    return cb_coordinates


def rodrigues_rotation(v, k, theta, centers=None):
    """Applies Rodrigues' rotation on a coordinate trajectory.
    Vrot = v*cos(theta) + (k x v)sin(theta) + k(k.v)(1-cos(theta))

    Parameters
    ----------
    v : array, shape [n_frames, n_coordinates, dim_coordinate]
        The coordinates to rotate around a vector. Primarily used
        to rotate a trajectory of coordinates.
    k : array, shape [n_frames, dim_coordinate]
        A list of vectors to rotate each frame by individually.
    theta : float
        The angle to rotate by.
    centers : array, shape [n_frames, dim_coordinate]
        The center coordinate to rotate around.

    Returns
    ----------
    new_coords : array, shape [n_frames, n_coordinates, dim_coordinate]
        Updated coordinates: `v`, rotated around `k`, centered at
        `centers`, by `theta`.
    """
    if centers is None:
        centers = np.array([0,0,0])
    else:
        centers = centers[:, None, :]
    # center coordinates to prep for rotation
    v_centered = v - centers
    # calculate each of the three terms in the rodrigues rotation
    first_terms = v_centered * np.cos(theta)
    second_terms = np.cross(k[:, None, :], v_centered)*np.sin(theta)
    k_dot_vs = np.einsum('ijk,ijk->ij', k[:, None, :], v_centered)
    ang = 1- np.cos(theta)
    third_terms = np.array(
        [k[i]*k_dot_vs[i][:, None]*ang for i in range(len(k_dot_vs))])
    new_coords = (first_terms + second_terms + third_terms) + centers
    return new_coords


def _remove_touches_protein(coords, pdb, probe_radius=0.17):
    """Helper function for removing coordinates that are too close to a
    protein atom
    """
    # get distance cutoffs
    atomic_radii = np.array([a.element.radius for a in pdb.top.atoms])
    dist_cutoffs = (atomic_radii + probe_radius)
    # extract pdb coordinates
    pdb_xyz = pdb.xyz[0]
    # get all pairwise distances
    dists = scipy.spatial.distance.cdist(pdb_xyz, coords)
    # slice distances that are not near protein
    reduced_coords = coords[np.all(dists > dist_cutoffs[:,None], axis=0)]
    return reduced_coords


def remove_touches_protein(coords, pdb, probe_radius=0.17):
    """Remove coordinates that are too close to the protein.
    
    Attributes
    ----------
    coords : array, shape=(n_coordinates, 3),
        The coordinates to determine if touches protein.
    pdb : md.Trajectory,
        MDTraj trajectory object of the protein.
    probe_radius : float, default=0.17,
        Radius (in nm) for coordinate being too close to a protein atom's
        van der Waals radius. Default is 0.17, the radius of water.
    """
    # pairwise distances can add up! Chunks calculation if there would be
    # too many pairwise distances.
    # Set maximum number pairwise distances before deciding to chunk data
    max_dist_points = 5E7
    # if too many pairwise distances, chunk data
    if coords.shape[0]*pdb.xyz[0].shape[0] > max_dist_points:
        reduced_coords = np.zeros((0,3))
        # set chunking size
        chunk_size = 2048
        # chunk coordinate set
        coords_chunked = divide_chunks(coords, chunk_size)
        # obtain chunked histograms
        for coords_chunk in coords_chunked:
            # append chunked results
            reduced_coords = np.vstack(
                [
                    reduced_coords,
                    _remove_touches_protein(
                        coords_chunk, pdb, probe_radius=probe_radius)])
    else:
        # if no chunking requires, computes all at once
        reduced_coords = _remove_touches_protein(
            coords, pdb, probe_radius=probe_radius)
    return reduced_coords


def cluster_grids(point_cloud, spacing, n_clouds=all):
    """Clusters grid points and returns top volume clouds.

    Attributes
    ----------
    point_cloud : nd.array, shape=(n_coordinates, 3),
        The point cloud to cluster.
    spacing : float,
        Distance between points to consider within a cluster.
    n_clouds : int, default=all,
        The number of clusters to return.

    Returns
    ----------
    contiguous_clouds : nd.array, shape=(n_coordinates, 3),
        The coordinates of points within the top n_clouds
        after clustering.
    """
    # cluster using scipy hierarchical clustering
    orig_cluster_mapping = scipy.cluster.hierarchy.fclusterdata(
        point_cloud, t=spacing, criterion='distance')
    # sort based on number of points in cluster
    orig_cluster_mapping -= orig_cluster_mapping.min()
    largest_labels = np.argsort(-np.bincount(orig_cluster_mapping))
    # extract top n_clouds
    if n_clouds is all:
        n_clouds = np.unique(orig_cluster_mapping).shape[0]
    contiguous_iis = np.hstack(
        [
            np.where(
                orig_cluster_mapping==label)[0]
            for label in largest_labels[:n_clouds]])
    contiguous_clouds = point_cloud[contiguous_iis]
    return contiguous_clouds


def align_dye_to_res(pdb, dye_coords, resSeq):
    """Aligns dye point cloud to a residue.

    Attributes
    ----------
    pdb : md.Trajectory,
        The pdb to use for alignment.
    dye_coords : nd.array, shape=(n_coords, 3),
        The coordinates of the dye or dye point cloud to align.
    resSeq : int,
        The residue sequence number that dye will be aligned to.

    Returns
    ----------
    algined_coords : nd.array, shape=(n_coords, 3),
        The aligned coordinates.
    """
    M, t = determine_rot_mat(pdb, resSeq)
    aligned_coords = np.matmul(dye_coords, M) + t
    return aligned_coords


def bincount_dists(dists, bin_width=0.1):
    """Generates a histogram with a specific bin width
    """
    nbins = int(dists.max() / bin_width) + 2
    max_bin = nbins * bin_width
    counts, bin_edges = np.histogram(dists, bins=nbins, range=[0, max_bin])
    return counts, bin_edges


def pairwise_distance_distribution(coords1, coords2, bin_width=0.1):
    """Generate a probability distribution of all pairwise distances within
    two sets of coordinates. Returns distribution as a normalized histogram.

    Attributes
    ----------
    coords1 : nd.array, shape=(n_coords1, 3),
        The first set of coordinates to calculate pairwise distances.
    coords2 : nd.array, shape=(n_coords1, 3),
        The second set of coordinates to calculate pairwise distances.
    bin_width : float, default=0.1,
        The bin width for the resultant histogram.

    Returns
    ----------
    probs : array, shape=(n_bins, ),
        The probability of having a distance within each bin.
    bin_edges : array, shape=(n_bins + 1, ),
        The edges of each bin in the resultant histogram.
    """
    # pairwise distances can add up! Chunks calculation if there would be
    # too many pairwise distances.
    # determine maximum pairwise distances before deciding to chunk data
    max_dist_points = 5E7
    # determine if need to chunk
    if coords1.shape[0]*coords2.shape[0] > max_dist_points:
        # set chunking size
        chunk_size = 2048
        # determine which coords to chunk
        if coords1.shape[0] > coords2.shape[0]:
            max_coords = coords1
            min_coords = coords2
        else:
            max_coords = coords2
            min_coords = coords1
        # chunk larger coordinate set
        coords_chunked = divide_chunks(max_coords, chunk_size)
        # initialize histograms
        counts = []
        bin_edges = []
        # obtain chunked histograms
        for coords in coords_chunked:
            dists = scipy.spatial.distance.cdist(min_coords, coords)
            counts_tmp, bin_edges_tmp = bincount_dists(dists, bin_width)
            counts.append(counts_tmp)
            bin_edges.append(bin_edges_tmp)
        # combine histogram counts
        tot_counts, bin_edges = _merge_histograms(counts, bin_edges)
    else:
        # don't worry about chunking and just calculate distances and make
        # single histogram
        dists = scipy.spatial.distance.cdist(coords1, coords2)
        tot_counts, bin_edges = bincount_dists(dists, bin_width)
    # normalize counts
    probs = int_norm_hist(bin_edges, tot_counts)
    return probs, bin_edges


def _merge_histograms(counts, bin_edges, weights=None):
    """Merges histograms into a single histogram. Only supported
    for histograms with uniform bin-widths that start from zero.

    Attributes
    ----------
    counts : list, shape=(n_histograms, ),
        A list of histogram counts.
    bin_edges : list, shape=(n_histograms, ),
        A list of histogram bin-edges.
    weights : list, shape=(n_histograms, ), default=None,
        A list of weights to use for combining histograms.

    Returns
    ----------
    tot_counts : nd.array, shape=(n_bins, ),
        The counts of each bin in the resultant histogram.
    tot_bin_edges : nd.array, shape=(n_bins + 1, ),
        The edges of each bin in the resultant histogram.
    """
    # equal weight everything is weights are not supplied
    if weights is None:
        weights = np.ones(len(counts))
    else:
        weights = np.array(weights).reshape(-1)
    # determine number of bins in each histogram and pad to largest length
    lens = [c.shape[0] for c in counts]
    n_pads = np.max(lens) - lens
    padded_counts = np.array(
            [
                np.hstack([counts[n], np.zeros(n_pads[n], dtype=int)])
                for n in np.arange(n_pads.shape[0])])
    # weight counts and sum down rows to get total number of counts
    weighted_counts = padded_counts*weights[:, None]
    tot_counts = np.sum(weighted_counts, axis=0)
    # bin edges should be histogram with the maximum number of bins
    tot_bin_edges = bin_edges[np.argmax(lens)]
    return tot_counts, tot_bin_edges


def _dye_distance_distribution(
        pdb, dye1, dye2, resSeq_list, cluster_grid_points=False):
    """Obtains a probability distribution of all pairwise distances between
    FRET dye labeling positions.

    Attributes
    ----------
    pdb : md.Trajectory,
        PDB of protein conformation.
    dye1 : md.Trajectory,
        PDB of first FRET dye coordinates.
    dye2 : md.Trajectory,
        PDB of second FRET dye coordinates.
    resSeq_list : list, shape=(2, ),
        List of resSeq pair, (i.e. [45, 204])
    cluster_grid_points : bool, default=False,
        Optionally cluster dye point clouds and return largest cloud.

    Returns
    ----------
    probs : nd.array, shape=(n_bins, ),
        The probability of observing a specific distances between FRET dyes.
    bin_edges : nd.array, shape=(n_bins + 1, ),
        The edges of each bin in the resultant histogram.
    """
    resSeq1, resSeq2 = resSeq_list[0], resSeq_list[1]
    # rotate and translate dye point clouds to residues
    d1_r1 = align_dye_to_res(pdb, dye1.xyz[0], resSeq1)
    d1_r2 = align_dye_to_res(pdb, dye1.xyz[0], resSeq2)
    d2_r1 = align_dye_to_res(pdb, dye2.xyz[0], resSeq1)
    d2_r2 = align_dye_to_res(pdb, dye2.xyz[0], resSeq2)
    # remove the points that touch a protein
    d1_r1 = remove_touches_protein(d1_r1, pdb, probe_radius=0.2)
    d1_r2 = remove_touches_protein(d1_r2, pdb, probe_radius=0.2)
    d2_r1 = remove_touches_protein(d2_r1, pdb, probe_radius=0.2)
    d2_r2 = remove_touches_protein(d2_r2, pdb, probe_radius=0.2)
    # optionally cluster the grid points
    if cluster_grid_points:
        d1_r1 = cluster_grids(d1_r1, spacing=0.25, n_clouds=1)
        d1_r2 = cluster_grids(d1_r2, spacing=0.25, n_clouds=1)
        d2_r1 = cluster_grids(d2_r1, spacing=0.25, n_clouds=1)
        d2_r2 = cluster_grids(d2_r2, spacing=0.25, n_clouds=1)
    # histogram the pairwise distances
    probs1, bin_edges1 = pairwise_distance_distribution(d1_r1, d2_r2)
    probs2, bin_edges2 = pairwise_distance_distribution(d1_r2, d2_r1)
    # average the two histograms
    probs, bin_edges = _merge_histograms(
        [probs1, probs2], [bin_edges1, bin_edges2], weights=[0.5, 0.5])
    return probs, bin_edges


def dye_distance_distribution(
        trj, dye1, dye2, resSeq_list, cluster_grid_points=False,
        n_procs=1):
    """Obtains a probability distribution of all pairwise distances between
    FRET dye labeling positions over a trajectory.

    Attributes
    ----------
    trj : md.Trajectory,
        Trajectory of protein conformations.
    dye1 : md.Trajectory,
        PDB of first FRET dye coordinates.
    dye2 : md.Trajectory,
        PDB of second FRET dye coordinates.
    resSeq_list : list, shape=(2, ),
        List of resSeq pair, (i.e. [45, 204])
    cluster_grid_points : bool, default=False,
        Optionally cluster dye point clouds and return largest cloud.
    n_procs : int, default=1,
        The number of cores to use for calculation. Parallel over the number
        of frames in supplied trajectory.

    Returns
    ----------
    probs : nd.array, shape=(n_frames, ),
        The probability of observing a specific distances between FRET dyes.
    bin_edges : nd.array, shape=(n_frames, ),
        The edges of each bin in the resultant histogram.
    """
    func = partial(
        _dye_distance_distribution, dye1=dye1, dye2=dye2,
        resSeq_list=resSeq_list, cluster_grid_points=cluster_grid_points)
    pool = Pool(processes=n_procs)
    outputs = pool.map(func, trj)
    pool.terminate()
    probs = ra.RaggedArray([output[0] for output in outputs])
    bin_edges = ra.RaggedArray([output[1] for output in outputs])
    return probs, bin_edges


def sample_FE_probs(dist_distribution, states, R0):
    dists = []
    bin_width = dist_distribution[0][1,0] - dist_distribution[0][0,0]
    for state in states:
        #Introduce a new random seed in each location
        #otherwise pool with end up with the same seeds.
        np.random.seed()
        dist = np.random.choice(
            dist_distribution[state][:,0], p=dist_distribution[state][:,1])
        dist += (np.random.random()*bin_width) - (bin_width/2.)

        dists.append(dist)
    FEs = FRET_efficiency(np.array(dists), R0)
    return FEs


def _sample_FRET_histograms(
        MSM_frames, T, populations, dist_distribution, R0, n_photon_std):
    """Helper function for sampling FRET distributions. Proceeds as 
    follows:
    1) generate a trajectory of n_frames, determined by the specified
       burst length.
    2) determine when photons are emitted by sampling the photon_distribution 
    3) use the FRET efficiencies per state to color the photons as either
       acceptor or donor fluorescence
    4) average acceptor fluorescence to obtain total FRET efficiency for
       the window
    """


    #Introduce a new random seed in each location otherwise pool with end up with the same seeds.
    rng=np.random.default_rng()

    # determine number of frames to sample MSM
    n_frames = np.amax(MSM_frames) + 1

    # sample transition matrix for trajectory
    initial_state = rng.choice(np.arange(T.shape[0]), p=populations)    

    trj = synthetic_trajectory(T, initial_state, n_frames)

    # get FRET probabilities for each excited state
    FRET_probs = sample_FE_probs(dist_distribution, trj[MSM_frames], R0)

    # flip coin for donor or acceptor emisions
    acceptor_emissions = rng.random(FRET_probs.shape[0]) <= FRET_probs

    # average for final observed FRET
    if n_photon_std is None:
        FRET_val = np.mean(acceptor_emissions)
        FRET_std = None
    else:
        # optionally chunk emissions and assess intraburst variation
        FRET_subsets = divide_chunks(acceptor_emissions, n_photon_std)
        FRET_chunks = [np.mean(subset) for subset in FRET_subsets]
        FRET_std = np.std(FRET_chunks)
        FRET_val = np.mean(acceptor_emissions)#np.mean(FRET_chunks)

    return FRET_val, FRET_std, trj


def sample_FRET_histograms(
    T, populations, dist_distribution, 
    MSM_frames, R0, n_procs=1, n_photon_std=None):
    """samples a MSM to regenerate experimental FRET distributions

    Attributes
    ----------
    T : array, shape=(n_states, n_states),
        Transition probability matrix.
    populations : array, shape=(n_states, )
        State populations.
    dist_distribution : ra.RaggedArray, shape=(n_states, None, 2)
        The probability of a fluorophore-fluorophore distance.
    MSM_frames : list of lists,
        A list of lists of times between photons in a given burst. 
        Each list should be it's own burst.
        Provide in microseconds.
    lagtime : float,
        MSM lagtime used to construct the transition probability
        matrix in nanoseconds.
    n_photon_std : int, default=None,
        The number of photons to chunk for assessing variation within a
        burst. Must be less than n_photons. Default: None will not
        assess the intraburst varaition.
    n_procs : int, default=1,
        Number of cores to use for parallel processing.
    R0: float, default=5.4,
        Forster radius for specified dyes

    Returns
    ----------
    FEs : nd.array, shape=(n_samples, 2),
        A list containing a FRET efficiency and an intraburst standard
        deviation for each drawing.
    E_Traj: ra.array, snape=(n_samples,2),
        A list containing a FRET efficiency and the center indicies used
        in the synthetic trajectory for each drawing.
    """

    if n_procs > 1:
        # fill in function values
        sample_func = partial(
            _sample_FRET_histograms, T=T, populations=populations,
            dist_distribution=dist_distribution, R0=R0, n_photon_std=n_photon_std)

        # multiprocess
        pool = Pool(processes=n_procs)
        FE= pool.map(sample_func, MSM_frames)
        pool.terminate()

    else:
        FE = [_sample_FRET_histograms(MSM_frame, T=T, populations=populations,
            dist_distribution=dist_distribution, R0=R0, n_photon_std=n_photon_std) 
            for MSM_frame in MSM_frames]

    # numpy the output
    FE= np.array(FE, dtype=object)
    FEs=FE[:,0:2]
    trajs=FE[:,2]

    return FEs, trajs

def convert_photon_times(inter_photon_times, lagtime, slowing_factor):
    #Take the inter_photon times (in us) and convert to MSM frame steps
    #Accounting for a slowing factor for the MSM.
    #Lagtime should be in ns.
    conversion_factor=1000/(lagtime*slowing_factor)

    #Multiply experimental wait times by this to get MSM steps.
    MSM_frames=np.array([np.cumsum(np.multiply(inter_photon_times[i], conversion_factor), dtype=int)
     for i in range(len(inter_photon_times))], dtype='O')
    return MSM_frames

def int_norm_hist(xs, ys):
    """simple integration normalization"""
    if ys.shape[0] == xs.shape[0] - 1:
        heights = ys
    elif ys.shape[0] == xs.shape[0]:
        heights = (ys[1:] + ys[:-1]) / 2.
    dx = xs[1:] - xs[:-1]
    I = np.sum(heights*dx)
    return ys/I

def histogram_to_match_expt(pred_data, expt_data):
    #Histograms and normalizes a predicted 1D np array
    #To match the experimental histogramming
    bin_centers=expt_data[:,0]
    bin_width=bin_centers[1]-bin_centers[0]
    lower_range=bin_centers[0]-(bin_width/2)
    upper_range=bin_centers[-1]+(bin_width/2)
    nbins=len(bin_centers)
    if np.ndim(pred_data)==1:
        counts, bin_edges = np.histogram(pred_data, range=[lower_range, upper_range], bins=nbins)
        probs=counts/counts.sum()
    else:
        probs=[]
        for i in range(len(pred_data)):
            temp_counts,bins=np.histogram(pred_data[i],range=[lower_range, upper_range], bins=nbins)
            probs.append(temp_counts/temp_counts.sum())
        probs=np.array(probs)
    return probs

def Sum_sq_resid(expt_data, pred_data):
    RSS=np.sum((pred_data-expt_data)**2, axis=1)
    return RSS

def normalize_array(array):
    if np.ndim(array)==1:
        norm_array=(array-np.amin(array))/(np.amax(array)-np.amin(array))
    else:
        norm_array=[]
        for i in range(len(array)):
            norm_array.append((array[i]-np.amin(array[i]))/(np.amax(array[i])-np.amin(array[i])))
    return norm_array

def remake_data_from_hist(histo_data):
    #Converts histogrammed data back to raw data. Will cause some shifting
    #Supply an array of shape [# bins, 2] where each subarray is [bin_center, bin_count]
    bin_centers=histo_data[:,0]
    bin_width=bin_centers[1]-bin_centers[0]
    lower_range=bin_centers[0]-(bin_width/2)
    upper_range=bin_centers[-1]+(bin_width/2)
    bin_counts=histo_data[:,1].astype(int)

    rebuilt_data=[]
    for i, bin_count in enumerate(bin_counts):
        rebuilt_data.append(np.random.uniform(
            low=bin_centers[i]-(bin_width/2),
            high=bin_centers[i]+bin_width/2, 
            size=int(bin_count)))

    rebuilt_data=np.array(list(np.concatenate(rebuilt_data).flat))
    return rebuilt_data

def calc_4_moments(histo_data):
    #Calculates the 4 moments of a histogram
    #Works on 1D or 2D arrays, for 2D calculates on axis=1
    if np.ndim(histo_data)==1:
        data_mean=np.mean(histo_data)
        data_std=np.std(histo_data)
        data_skew=skew(histo_data)
        data_kurtosis=kurtosis(histo_data, fisher=True)
        moments=np.vstack((data_mean,data_std,data_skew,data_kurtosis))
    else:
        data_mean=np.mean(histo_data, axis=1)
        data_std=np.std(histo_data, axis=1)
        data_skew=skew(histo_data, axis=1)
        data_kurtosis=kurtosis(histo_data, axis=1, fisher=True)
        moments=np.vstack((data_mean,data_std,data_skew,data_kurtosis))
    return moments
    
def calc_2_3_4_moments(histo_data):
    #Calculates the 4 moments of a histogram
    #Works on 1D or 2D arrays, for 2D calculates on axis=1
    if np.ndim(histo_data)==1:
        data_std=np.std(histo_data)
        data_skew=skew(histo_data)
        data_kurtosis=kurtosis(histo_data, fisher=True)
        moments=np.vstack((data_std,data_skew,data_kurtosis))
    else:
        data_std=np.std(histo_data, axis=1)
        data_skew=skew(histo_data, axis=1)
        data_kurtosis=kurtosis(histo_data, axis=1, fisher=True)
        moments=np.vstack((data_std,data_skew,data_kurtosis))
    return moments
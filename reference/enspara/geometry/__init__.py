"""Geometrical analysis, including distance, rotamer and pocket calculations
"""

from . import pockets
from . import rotamer
from .rotamer import all_rotamers

import numpy as np
from enspara import exception


def calculate_piecewise_helix_vectors(
        trj, helix_resnums=None, helix_start=None, helix_end=None):
    """Calculates the vectors along specified alpha-helices for each
    frame in a trajectory. Vectors are in the direction of the starting
    residue to the ending residue.
    Parameters
    ----------
    trj : md.Trajectory object
        An MDTraj trajectory object containing frames of structures to
        compute helix-vectors from.
    helix_resnums : array, shape [n_residues, ], optional, default: None
        A list of residues that correspond to an alpha-helix. This is
        useful if residue numbers within a helix are unordinary. If a
        list of residues is not supplied, a start and stop residue can
        be specified.
    helix_start : int, optional, default: None
        The starting residue of the helix.
    helix_start : int, optional, default: None
        The ending residue of the helix.
    Returns
    ----------
    vectors : array, [n_frames, 3]
        A list of unit-vectors corresponding to the direction of the
        specified alpha-helix for each frame in the trajectory.
    center_coords : array, [n_frames, 3]
        Each center coordinate of the helix-atoms. Can be used to
        reconstruct a line going through the alpha-helix.
    """
    if (helix_resnums is None) and ((helix_start is None) or
                                    (helix_end is None)):
        raise exception.ImproperlyConfigured(
            "Either 'helix_resnums' or 'helix_start' and 'helix_end' "
            "are required.")
    elif helix_resnums is None:
        helix_resnums = np.arange(helix_start, helix_end+1)
    top = trj.topology
    backbone_nums = _get_backbone_nums(top, helix_resnums)
    backbone_coords = trj.xyz[:, backbone_nums]
    vectors = _generate_vectors_from_coords(backbone_coords, n_avg=12)
    center_coords = backbone_coords.mean(axis=1)
    return vectors, center_coords


def calculate_summary_helix_vectors(
        trj, res_refs, helix_resnums=None, helix_start=None, helix_end=None):
    """Gets vector orientations and center points of an alpha helix
    relative to an alpha-carbon on a residue within the helix.

    Parameters
    ----------
    trj : md.Trajectory object
        An MDTraj trajectory object containing frames of structures to
        compute helix-vectors from.
    res_refs : array-like
        Residue ids (resSeq) for which to build a coordinate frame relative
        to the helical axis.
    helix_resnums : array, shape [n_residues, ], optional, default: None
        A list of residues that correspond to an alpha-helix. This is
        useful if residue numbers within a helix are unordinary. If a
        list of residues is not supplied, a start and stop residue can
        be specified.
    helix_start : int, optional, default: None
        The starting residue of the helix.
    helix_start : int, optional, default: None
        The ending residue of the helix.

    Returns
    ----------
    helix_vectors : array, shape [n_frames, 3]
        A list of unit-vectors corresponding to the direction of the
        specified alpha-helix for each frame in the trajectory.
    ref_vectors : array, shape [n_refs, n_frames, 3]
        A list of vectors that are orthogonal to the helix vector that
        passes through the alpha-carbon of each reference residue.
    cross_vectors : array, shape [n_refs, n_frames, 3]
        A list of vectors that are orthogonal to the helix vector and
        the ref_vectors.
    center_coords : array, [n_frames, 3]
        Each center coordinate of the helix-atoms. Can be used to
        reconstruct a line going through the alpha-helix.
    """
    top = trj.topology
    atom_refs = _get_CA_nums(top, res_refs)
    helix_vectors, helix_centers = calculate_piecewise_helix_vectors(
        trj, helix_resnums=helix_resnums, helix_start=helix_start,
        helix_end=helix_end)
    ref_points = trj.xyz[:, atom_refs]
    ref_vectors = _get_ref_vectors(helix_vectors, helix_centers, ref_points)
    cross_vectors = np.cross(ref_vectors, helix_vectors)
    return helix_vectors, ref_vectors, cross_vectors, helix_centers


def angles_from_plane_projection(vectors, v1, v2, degree=True):
    projection1 = np.einsum('ij,ij->i', vectors, [v1])
    projection2 = np.einsum('ij,ij->i', vectors, [v2])
    projection_vector = np.array(list(zip(projection1, projection2)))
    mags = np.sqrt(np.einsum('ij,ij->i', projection_vector, projection_vector))
    dot_prods = np.einsum('ij,ij->i', projection_vector, [[1,0]])
    inner_prod = dot_prods/mags
    angles = np.arccos(np.around(inner_prod, 5))
    iis_neg = np.where(projection2 < 0)
    angles[iis_neg] = -angles[iis_neg]
    if degree:
        angles *= 360./(2*np.pi)
    return angles, mags


def angles_from_vecs(vecs, to=0):
    """Compute the angle from one vector to all other vectors.

    Parameters
    ----------
    vecs : np.ndarray, shape=(n_vectors, 3)
        Vectors to compute the dot product of.
    to : int
        Index to compute the dot product of all `vecs` to.

    Returns
    -------
    angles : np.ndarray, shape=(n_vectors,)
        Angles between each vector in `vecs` and `to`.
    """

    mags = np.sqrt(np.einsum('ij,ij->i', vecs, vecs))
    dot_prods = np.einsum('ij,ij->i', vecs, [vecs[to]])
    inner_prod = dot_prods / mags[to] / mags
    angles = np.arccos(np.around(inner_prod, 5))
    return angles


def _get_unit_vectors(vecs):
    """Normalizes a row of vectors to unit magnitude"""
    mags = np.sqrt(np.einsum('ij,ij->i', vecs, vecs))
    return vecs/mags[:,None]


def __generate_stacked_averages(coords, n_avg=4):
    """Helper function for computing vectors from helix coordinates"""
    # average coords
    stacked_coords = np.hstack(coords)
    avg_coords_stacked = np.array(
        [
            np.mean(stacked_coords[num:num+n_avg], axis=0)
            for num in range(len(coords[0])-n_avg-1)])
    return avg_coords_stacked


def _generate_vectors_from_coords(coords, n_avg=4):
    """Computes vectors along an alpha-helix given backbone
    coordinates. Generates a running average of coordinate position
    and averages vectors between sequential average points. Returns
    a vector in the direction of the alpha-helix.
    Parameters
    ----------
    coords : array, shape [n_frames, n_coords, 3]
        An array containing n_frames, where each frame is a list of
        [x,y,z] coordinates corresponding to a helixs' backbone.
    n_avg : int, optional, default: 4
        The number of coordinates to compute a running average.
        If coordinates correspond to C-alphas, this value should be 4.
        If coordinates correspond to N-CA-C atoms, this value should be
        12 to encompass a full repeat.
    Returns
    ----------
    unit_vectors : array, shape [n_frames, 3]
        The unit-vector corresponding to the direction of the helix for
        each frame in coords.
    """
    avg_coords_stacked = __generate_stacked_averages(coords, n_avg)
    # average coords
    avg_vectors_stacked = np.mean(
        np.array(
            [
                np.subtract(avg_coords_stacked[num], avg_coords_stacked[num+1])
                for num in range(len(avg_coords_stacked)-1)]),
        axis=0)
    avg_vectors = np.array(
        [
            avg_vectors_stacked[num:num+3]
            for num in range(len(avg_vectors_stacked))[::3]])
    unit_vectors = _get_unit_vectors(avg_vectors)
    return unit_vectors


def _get_backbone_nums(top, resnums):
    """Returns the atom indices that correspond to N, CA, and C for a
    list a residues."""
    backbone_nums = np.concatenate(
        [
            [
                top.select("resSeq " + str(res)+" and name N")[0],
                top.select("resSeq " + str(res)+" and name CA")[0],
                top.select("resSeq " + str(res)+" and name C")[0]]
            for res in np.sort(resnums)])
    return backbone_nums


def _get_CA_nums(top, resnums):
    CAs = np.array(
        [
            top.select("resSeq " + str(res) + " and name CA")[0]
            for res in resnums])
    return CAs


def _get_ref_vectors(normal_vecs, vec_points, ref_points):
    a_m_p = vec_points[:, None, :] - ref_points
    a_m_p_dot_n = np.einsum('ijk,ijk->ij', a_m_p, normal_vecs[:,None,:])
    ref_vectors = np.array(
        [
            _get_unit_vectors(
                a_m_p[:,i,:] - normal_vecs*a_m_p_dot_n[:,i][:,None])
            for i in range(a_m_p.shape[1])])
    return ref_vectors

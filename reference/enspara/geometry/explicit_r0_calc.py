import mdtraj as md
import yaml
import enspara
import os
import pandas as pd
import numpy as np
import scipy
from numpy.linalg import norm
from enspara.msm.synthetic_data import synthetic_trajectory
from enspara.geometry import dyes_from_expt_dist as dyefs
from functools import partial
from multiprocessing import Pool
from multiprocessing import get_context

def load_dye(dyename, dyelibrary, dyes_dir):
    """
    Helper function for loading dyes from the enspara dye library.
    """
    
    dye_file=dyelibrary[dyename]["filename"].split("_cutoff")[0]

    #Load the dye and dye weights
    dye=md.load(dyes_dir+f'/trajs/{dye_file}_cutoff10.dcd',top=dyes_dir+f'/structures/{dye_file}.pdb')
    return(dye)

def load_library():
    dyes_dir=os.path.dirname(enspara.__file__)+'/data/dyes'

    with open(f'{dyes_dir}/libraries.yml','r') as yaml_file:
        dyelibrary = yaml.load(yaml_file, Loader=yaml.FullLoader)

    return dyelibrary

def calc_R0(k2, QD, J, n=1.333):
    """
    Calculates R0 from dye parameters
    
    Attributes:
    ------------
    k2 : float,
        Value of kappa squared
    QD : float,
        Quantum yield of donor dye
    J : float,
        Normalized Spectral overlap integral of donor
        and acceptor dye-pairs
    n : float, default = 1.333
    refractive index. Defaults to water.
    
    Returns:
    ----------
    R0 : float,
        Value for R0 in nm.
    """
    R0constants= 0.02108 #for R0 in nm
    n4=n**4
    return(R0constants * np.power(k2 * QD * J / n4, 1 / 6))

def get_dye_overlap(donorname, acceptorname):
    """
    Calculates dye parameters for calculating R0
    
    Attributes
    -------------
    donorname : string,
        name of donor dye found in enspara's dye library
    acceptorname : string,
        name of acceptor dye found in enspara's dye library   

    Returns
    -------------
    J : float,
        Normalized spectral overlap integral
    QD : float,
        Quantum yield of the donor dye
    Td : float,
        Lifetime of the donor dye in the absence of acceptor (ns)
    """
    
    dyes_dir=os.path.dirname(enspara.__file__)+'/data/dyes'
    donor_fluor=donorname.split(" ")[0]
    donor_number=donorname.split(" ")[1]
    acceptor_fluor=acceptorname.split(" ")[0]
    acceptor_number=acceptorname.split(" ")[1]
    
    #Load donor dye spectrum
    donor_spectrum = pd.read_csv(f'{dyes_dir}/R0/{donor_fluor}{donor_number}.csv')
    donor_spectrum[['Emission', 'Excitation']] = donor_spectrum[['Emission', 'Excitation']] / 100
    
    #Load acceptor dye spectrum
    acceptor_spectrum = pd.read_csv(f'{dyes_dir}/R0/{acceptor_fluor}{acceptor_number}.csv')
    acceptor_spectrum[['Emission', 'Excitation']] = acceptor_spectrum[['Emission', 'Excitation']] / 100
    
    #Load chromophore data
    chromophore_data = pd.read_csv(f'{dyes_dir}/R0/Dyes_extinction_QD.csv',delimiter=',',
                                   names=['Type', 'Chromophore', 'Ext_coeff', 'QD', 'Td'])
    
    #Pull Quantum yield of the donor absent acceptor
    QD = chromophore_data['QD'].loc[(chromophore_data['Chromophore'] == donor_number) &
                            (chromophore_data['Type'] == donor_fluor)].values.astype(float)

    #Pull donor lifetime in the absence of acceptor
    Td = chromophore_data['Td'].loc[(chromophore_data['Chromophore'] == donor_number) &
                            (chromophore_data['Type'] == donor_fluor)].values.astype(float)
    
    #Pull max extinction coefficient for the acceptor
    ext_coeff_max = chromophore_data['Ext_coeff'].loc[(chromophore_data['Chromophore'] == acceptor_number) &
                            (chromophore_data['Type'] == acceptor_fluor)].values.astype(float)
    
   # Extinction coefficient spectrum of the acceptor
    ext_coeff_acceptor = (ext_coeff_max * acceptor_spectrum['Excitation']).fillna(0)

    # Integral of the donor emission spectrum
    donor_spectra_integral = np.trapz(donor_spectrum['Emission'], x=donor_spectrum['Wavelength'])
    
    # Overlap integral between donor-acceptor (normalized by the donor emission spectrum)
    J = np.trapz(donor_spectrum['Emission'] * ext_coeff_acceptor * donor_spectrum['Wavelength'] ** 4,
             x=donor_spectrum['Wavelength']) / donor_spectra_integral
    
    return(J, QD, Td)

def remove_touches_protein_dye_traj(pdb, dye, resseq, probe_radius=0.04, atom_tol=6):
    """
    Takes a dye trajectory and aligns it to a protein PDB structure at resseq

    
    Attributes
    --------------
    pdb : md.Trajectory, 
        PDB of protein conformation
    dye: md.Trajectory, 
        Trajectory of dye conformations
    resseq: int,
        Residue to label (using PDB ID)
    probe_radius: float,
        radius of a probe to fit between other atom shells to see 
        whether residues are overlapping in nm.
    atom_tol: int,
        Number of overlapping atoms tolerated before a dye is "too clashed"
        to include. 
    
    Returns
    ---------------
    whole_dye_indicies: np.ndarray,
        Array of dye indicies that properly map on the protein
    """
    
    #Subsection the topology to remove the replaced residue
    pdb_sliced=pdb.atom_slice(pdb.top.select(f'not resSeq {resseq}'))

    # Send each dye frame to check if atoms overlaps with the protein. 
    # If so, atoms are deleted. Overlap defined as any distance less than
    # the distance between the edge of the protein elemental radii 
    # + the dye elemental radii + probe radius (all in nm)
    # 0.06 approximates a H-bond.
    # This returns a list of atoms that are not touching protein
    atoms_not_touching_protein=np.array(
        [np.shape(
            dyefs.remove_touches_protein(i, pdb_sliced, probe_radius=probe_radius))[0] 
         for i in dye.xyz])
    
    #Select out the whole dyes, with a slight tolerance for backbone atom overlaps
    whole_dye_indicies=np.where(
        atoms_not_touching_protein>=len(dye.xyz[0])-atom_tol)[0]
    
    return whole_dye_indicies
    
    
def get_dipole_components(dye, dyename, dyelibrary):
    '''
    Takes input of a dye trajectory that exists in the the enspara library,
    pulls the dipole atoms, and returns the dipole moments for all frames.
    '''

    #Pull the atom IDs that comprise the dipole moment
    mu_atomids=dye.topology.select(
        f'(name {dyelibrary[dyename]["mu"][0]}) or (name {dyelibrary[dyename]["mu"][1]})')

    #Select the dipole atoms from the trajectory
    #xyz is in nm
    mu_positions=dye.atom_slice(mu_atomids).xyz

    #Make the dipole vector
    mu_vectors=np.subtract(mu_positions[:,0,:],mu_positions[:,1,:])
    
    #Return the dipole origin and the dipole vector (not unit vector!)
    return(mu_positions[:,0,:], mu_vectors)

def get_dye_center(dye, dyename, dyelibrary):
    '''
    Takes input of a dye trajectory that exists in the the enspara library,
    pulls the flurophore center position, and returns it for all frames.
    '''
    #Pull the atom IDs that comprise the dipole moment
    r_atomids=dye.topology.select(
        f'(name {dyelibrary[dyename]["r"][0]})')

    #Select the dipole atoms from the trajectory
    r_positions=dye.atom_slice(r_atomids).xyz
    
    return(r_positions.reshape((-1,3)))

def assemble_dye_r_mu(dye, dyename, dyelibrary):
    '''
    Takes input of a dye trajectory that exists in the the enspara library,
    exracts dye emission/excitation center and dipole moment for each frame in traj.
    Assembles output to bundle as a h5 file for future use.
    
    Returns
    dye_pos_params, nd.array, shape=(n_frames,6)
    First 3 positions are the xyz of the dye_center
    Second 3 give the unit vector of the dipole moment
    '''
    
    dye_center_coords=get_dye_center(dye, dyename, dyelibrary)
    
    dipole_origin, dipole_vector = get_dipole_components(dye, dyename, dyelibrary)
    
    dye_pos_params=np.hstack((dye_center_coords,dipole_origin, dipole_vector))
    return(dye_pos_params)

def sample_dye_coords(donor_coords, acceptor_coords, states):
    """
    Picks random dye coordinates for a trj, returns the corresponding k2 and r

    Attributes
    --------------
    Donor_coords, nd.array (9,)
        numpy array specifying the xyz of the dye emission/excitation center,
        the origin of the dipole moment, and the dipole vector
    Acceptor_coords, nd.array (9,)
        numpy array specifying the xyz of the dye emission/excitation center,
        the origin of the dipole moment, and the dipole vector
    states, nd.array, int, (num_states)
        numpy array specifying states to sample dye positions of.

    Returns
    --------------
    k2s : nd.array, float (num_states)
        kappa squared value for the sampled donor/acceptor positions
    rs : nd.array, float (num_states)
        distances between the dye-emission centers for the sampled positions.
    """

    rs, k2s = [], []
    for state in states:
        D_coords=donor_coords[state][np.random.choice(len(donor_coords[state]))]
        A_coords=acceptor_coords[state][np.random.choice(len(acceptor_coords[state]))]
        k2_r=calc_k2_r(D_coords,A_coords)
        k2s.append(k2_r[0])
        rs.append(k2_r[1])
    return np.array(k2s), np.array(rs)


def calc_k2_r(Donor_coords, Acceptor_coords):
    """
    Calculates k2 from acceptor and donor dye positions/vectors
    
    Attributes
    --------------
    Donor_coords, nd.array (9,)
        numpy array specifying the xyz of the dye emission/excitation center,
        the origin of the dipole moment, and the dipole vector
    Acceptor_coords, nd.array (9,)
        numpy array specifying the xyz of the dye emission/excitation center,
        the origin of the dipole moment, and the dipole vector
    
    Returns
    --------------
    k2 : float,
        kappa squared value for the specified donor/acceptor positions
    r : float,
        distance between the donor and acceptor emission centers (nm)
    """
    
    D_center, D_dip_ori, D_vec = np.split(Donor_coords, 3)
    A_center, A_dip_ori, A_vec = np.split(Acceptor_coords, 3)

    #Calculate the distance between dye emission/excitation centers
    r=scipy.spatial.distance.cdist(D_center.reshape(1,3), A_center.reshape(1,3))[0,0]

    #Define the vector joining donor and acceptor origins
    rvec=np.subtract(D_dip_ori,A_dip_ori)

    #Calculate the angles between dipole vectors
    cos_theta_T=np.dot(A_vec,D_vec)/(norm(A_vec)*norm(D_vec))
    cos_theta_D=np.dot(rvec,D_vec)/(norm(rvec)*norm(D_vec))
    cos_theta_A=np.dot(A_vec,rvec)/(norm(A_vec)*norm(rvec))

    #Calculate k2
    k2=(cos_theta_T-(3*cos_theta_D*cos_theta_A))**2
    return(k2, r)

def align_full_dye_to_res(pdb, dye, resseq, dyename, dyelibrary):
    """
    Aligns a dye trajectory to a specific residue using backbone and CB.

    Attributes
    --------------
    pdb : md.Trajectory 
        MDtraj trajectory of protein conformation to align to
    dye: md.Trajectory, 
        MDtraj trajectory of dye conformations
    resseq: int
        residue to label (using PDB ID)
    dyename: string
        name of the dye being added
    dyelibrary: dictionary of dyes
        Must have entry for CB of the dye if you are labeling
        a residue other than GLY or PRO.

    Returns
    ---------------
    dye.xyz : nd.array of aligned atom positions for trajectory
    """

    #Get the residue name
    resname = pdb.top.atom(pdb.top.select(f'resSeq {resseq}')[0]).residue.name

    #If not gly or pro, align to backbone + CB
    if resname != 'GLY' and resname != "PRO":
        dye_ca = dye.top.select('name CA')
        dye_n = dye.top.select('name N')
        dye_c = dye.top.select('name C')
        dye_o = dye.top.select('name O')
        dye_cb = dye.top.select(dyelibrary[dyename]['CB'][0])
        dye_sele = np.concatenate((dye_n, dye_ca, dye_cb, dye_c, dye_o))

        prot_sele = pdb.top.select(f'resSeq {resseq} and (backbone or name CB)')

    #If Gly / Pro just do backbone alignment.
    else:
        dye_ca = dye.top.select('name CA')
        dye_n = dye.top.select('name N')
        dye_c = dye.top.select('name C')
        dye_o = dye.top.select('name O')
        dye_sele = np.concatenate((dye_n, dye_ca, dye_c, dye_o))
    
        prot_sele = pdb.top.select(f'resSeq {resseq} and backbone')
    
    dye = dye.superpose(pdb, atom_indices = dye_sele, ref_atom_indices = prot_sele)
    return(dye.xyz)

def _map_dye_on_protein(pdb, dye, resseq, dyename, dyelibrary,
    outpath='.', save_aligned_dyes=False, dye_weights=None):
    '''
    Aligns a dye trajectory onto a pdb file, removing any conformations 
    that overlap with protein atoms.
    
    Attributes
    --------------
    pdb : zip(md.Trajectory, state#) 
        PDB of protein conformation, number to label your state for output
    dye: md.Trajectory, 
        Trajectory of dye conformations
    resseq: int
        residue to label (using PDB ID)
    outpath: path, 
        Where to write output to
    save_aligned_dyes: bool, default=False
        optionally save trajectory of aligned/pruned dyes
    centern: int,
        protein center number that you're aligning to (for output naming)
    weights: bool, default=None
        Weight conformation probability by conformation probability in dye traj?
    
    Returns
    ---------------
    
    '''
    pdb, centern = pdb
    
    #Align the dye to the supplied resseq and update xyzs
    dye.xyz=align_full_dye_to_res(pdb, dye, resseq, dyename, dyelibrary)

    #Remove conformations that overlap with protein
    dye_indicies = remove_touches_protein_dye_traj(pdb, dye, resseq)
    
    #Optionally, weight the dye indicies
    if len(dye_weights)>1:
        dye_weights=dye_weights[dye_indicies]
        dye_probs = dye_weights / sum(dye_weights)
        
    #Optionally, save the aligned dye structures
    if save_aligned_dyes:
        if len(dye_indicies)>0:
            os.makedirs(f'{outpath}/dye-alignments',exist_ok=True)
            dye[dye_indicies].save_dcd(
                f'{outpath}/dye-alignments/{"".join(dyename.split(" "))}-center-{centern}-residue{resseq}.dcd')
    
    #Pull out the dye emission center and dipole moment for each frame
    dye_r_mu=assemble_dye_r_mu(dye[dye_indicies], dyename, dyelibrary)
    
    return(dye_r_mu)

def map_dye_on_protein(trj, dyename, resseq, outpath='.', save_aligned_dyes=False, weight_dyes=False, n_procs=1):
    '''
    Aligns a dye trajectory onto a pdb file, removing any conformations 
    that overlap with protein atoms.
    
    Attributes
    --------------
    trj : md.Trajectory, 
        Trajectory of protein conformations to map dyes on
    dyename: string, 
        Name of dye in dye library
    resseq: int
        residue to label (using PDB ID)
    outpath: path, 
        Where to write output to
    save_aligned_dyes: bool, default=False
        optionally save trajectory of aligned/pruned dyes
    centern: int,
        protein center number that you're aligning to (for output naming)
    weights: bool, default=False
        Weight conformation probability by conformation probability in dye traj?
        Not yet implemented
    
    Returns
    ---------------
    
    '''
    
    dyelibrary = load_library()
    
    #Load the dye trajectory
    dye = load_dye(dyename, dyelibrary, dyes_dir)
    
    #Load dye weights (if using)
    if weight_dyes:
        raise Exception("Dye-weighting not yet implemented")
        # dye_weights=np.loadtxt(
        #     f'{dye_dir}/weights/{dyelibrary[dyename]["filename"].split("_cutoff")[0]}_cutoff10_weights.txt')
    else:
        dye_weights=[]
    st = False
    #Map the dyes
    if st == True:
        for i in zip(trj, np.arange(len(trj))):
            _map_dye_on_protein(i, dye=dye, resseq=resseq, dyename=dyename, dyelibrary=dyelibrary, outpath=outpath,
                    save_aligned_dyes=save_aligned_dyes, dye_weights=dye_weights)
    else:
        func = partial(
            _map_dye_on_protein, dye=dye, resseq=resseq, dyename=dyename, dyelibrary=dyelibrary, outpath=outpath, 
            save_aligned_dyes=save_aligned_dyes, dye_weights=dye_weights)
        with get_context("spawn").Pool(processes=n_procs) as pool:
            outputs = pool.map(func, zip(trj, np.arange(len(trj))))
            pool.terminate()
    
    dye_coords = enspara.ra.RaggedArray(outputs)
    
    return(dye_coords)

def find_dyeless_states(dye_coords):
    '''
    Iterates through a ragged array finding empty lists
    
    Attributes
    -----------
    dye_coords, ra.array
        ragged array of all mapped dye positions for
        the cluster centers
    
    Returns
    -----------
    bad_states, np.array, int
        indicies of states with no dye positions mapped
    '''
    
    bad_states=[]
    for i in range(len(dye_coords)):
        if len(dye_coords[i])==0:
            bad_states.append(i)
    
    return(np.array(bad_states))

def remove_bad_states(bad_states, t_counts):
    '''
    Removes bad states from the MSM with row re-normalizing.
    
    Crude, probably better to check if states are
    now disconnected and also re-normalize.
    
    Attributes
    -----------
    bad_states, np.array
        indicies of bad states in the MSM
    eq_probs, np.array
        equilibrium probabilities for a MSM
    t_probs, np.array
        transition probabilities for a MSM
    
    Returns
    -----------
    eq_probs, np.array
        eq_probs with bad state indicies 0'd
    t_probs, np.array
        t_probs, with bad states/state transitions 0'd
    '''
    
    t_counts = np.copy(t_counts)

    #Check to see if no bad states
    if len(bad_states)==0:
        return(t_counts)
    
    else:
        t_counts[:,bad_states] = 0
        t_counts[bad_states,:] = 0
        return(t_counts)

def remove_dyeless_msm_states(dye_coords1, dye_coords2, dyename1, dyename2, eq_probs, t_counts):
    '''
    Removes bad states from the MSM without re-normalizing.
    
    Crude, probably better to check if states are now disconnected.
    
    Attributes
    -----------
    dye_coords1, ra.RaggedArray
        Mapped dye coordinates/vectors for each state in MSM
    dye_coords2, ra.RaggedArray
        Mapped dye coordinates/vectors for each state in MSM
    dyename1, string
        Name of first dye (only used for notekeeping)
    dyename2, string
        Name of second dye (only used for notekeeping)
    eq_probs, np.array
        equilibrium probabilities for a MSM
    t_counts, np.array
        transition counts for your MSM
    
    Returns
    -----------
    eq_probs, np.array
        eq_probs with bad state indicies 0'd
    t_probs, np.array
        t_probs, with bad states/state transitions 0'd
    '''
    
    #Get bad_states
    bad_states1 = find_dyeless_states(dye_coords1)
    print(f'{len(bad_states1)} states had no availabile dye configuration for dye {dyename1}.')

    bad_states2 = find_dyeless_states(dye_coords2)
    print(f'{len(bad_states2)} states had no availabile dye configuration for dye {dyename2}.')

    #Remove any states without dyes mapped (steric clashes)
    bad_states = np.unique(np.concatenate((bad_states1,bad_states2)))

    #Remove states without dye_mappings
    trimmed_t_counts = remove_bad_states(bad_states,t_counts)

    #Rebuild the MSM
    print('Rebuilding MSM using row-normalization')

    counts, tprobs, eqs = enspara.msm.builders.normalize(trimmed_t_counts,calculate_eq_probs=True)

    print(f'Total states removed: {len(bad_states)}/{len(t_counts)}.')
    print(f'During pruning for both dyes, lost total eq probs from original model of:')
    print(f'{np.round(100*(eq_probs[bad_states].sum()),3)} %. \n')
    if len(bad_states)/len(t_counts) > 0.2:
        print('WARNING! Labeling resulted in lots of states lost from your MSM.')

    if eq_probs[bad_states].sum() > 0.2:
        print('WARNING! Labeling at this position resulted in major probability loss.')

    #Also return modified dye_coordinates
    for i in bad_states:
        #Fill in all zeros so we keep the array intact but have an obvious mark.
        dye_coords1[i]=[np.zeros(9)]
        dye_coords2[i]=[np.zeros(9)]

    return(eqs, tprobs, dye_coords1, dye_coords2)

def _simulate_burst_k2(MSM_frames, T, populations, dye_coords1, dye_coords2, J, QD, n=1.333):
    """
    Helper function for sampling FRET distributions. Proceeds as follows:
    1) Generate a trajectory of n_frames determined by the burst length
    2) Pick random dye positions for the states that correspond to photon emissions
    3) Calculate the R0 for each instantaneous dye position given the k2 from the dye positions
    4) Calculate the probability of photon transfer
    5) Average acceptor fluorescence to obtain total FRET efficiency for the burst.
    """
    #Introduce a new random seed in each location otherwise pool with end up with the same seeds.
    rng = np.random.default_rng()

    # determine number of frames to sample MSM
    n_frames = np.amax(MSM_frames) + 1

    # sample transition matrix for trajectory
    initial_state = rng.choice(np.arange(T.shape[0]), p=populations)
    trj = synthetic_trajectory(T, initial_state, n_frames)

    #Pull dye orientations for the synthetic trajectory
    k2s, rs = sample_dye_coords(dye_coords1,dye_coords2,trj[MSM_frames])

    #Calculate the corresponding R0
    R0s = calc_R0(k2s, QD, J, n=n)

    #Convert to FRET efficiencies
    FRET_probs = dyefs.FRET_efficiency(rs, R0s)

    # flip coin for donor or acceptor emisions
    acceptor_emissions = rng.random(FRET_probs.shape[0]) <= FRET_probs

    #Average for final observed FRET
    FRET_val = np.mean(acceptor_emissions)
    
    return FRET_val, trj, k2s, rs

def simulate_burst_k2(MSM_frames, T, populations, dye_coords1, dye_coords2, 
                      dyename1, dyename2, n=1.333, n_procs=1):
    
    #Calculate the dye-properties for the provided dyes.
    J, QD, Td = get_dye_overlap(dyename1, dyename2)
    
    # fill in function values
    sample_func = partial(
        _simulate_burst_k2, T = T, populations = populations, 
        dye_coords1 = dye_coords1, dye_coords2 = dye_coords2, 
        J = J, QD = QD, n=n)
    
    # multiprocess, split into chunks to reduce communication overhead
    pool = Pool(processes=n_procs)
    burst_info = pool.map(sample_func, MSM_frames, 
        chunksize = int(np.ceil(len(MSM_frames)/n_procs)))

    pool.terminate()
    
    #Numpy the output
    burst_info = np.array(burst_info, dtype=object)

    #Separate things out
    FEs = burst_info[:,0]
    trajs = burst_info[:,1]
    k2s = burst_info[:,2]
    rs = burst_info[:,3]
    return(FEs, trajs, k2s, rs)

if __name__ == '__main__':
    pass

import time

from contextlib import contextmanager

@contextmanager
def timed(string, log_func):
    tick = time.perf_counter()
    yield
    tock = time.perf_counter()
    log_func(string, (tock-tick))

import os
import logging
import math

import multiprocessing as mp
from contextlib import closing
from functools import partial, reduce
import ctypes
from operator import mul

import numpy as np
import mdtraj as md

from .. import exception

logger = logging.getLogger(__name__)
logger.setLevel(logging.INFO)


def sound_trajectory(trj, stride=1, frame=None):
    """Determine the length of a trajectory on disk.

    For H5 file formats, this is a trivial lookup of the shape parameter
    tracked by the HDF5 file system. For other file formats, a binary
    search-like system to figure out how long a trajectory on disk is
    in (maybe) log(n) time and constant space by loading individual
    frames from disk at exponentially increasing indices.

    Additional keyword args are passed on to md.load.

    Parameters
    ----------
    trj: file path
        Path to the trajectory to sound.

    Returns
    ----------
    length: int
        The length (in frames) of a trajectory on disk, as though loaded
        with kwargs

    See Also
    ----------
    md.load
    """
    with md.open(trj) as f:
        n_frames = len(f)

    return math.ceil(n_frames / stride)


def load_as_concatenated(filenames, lengths=None, processes=None,
                         args=None, **kwargs):
    '''Load many trajectories from disk into a single numpy array.

    Additional arguments to md.load are supplied as ``*args`` XOR
    ``**kwargs``. If ``*args`` are supplied, args and filenames must be
    of the same length and the ith arg is applied as the kwargs to the
    md.load (e.g. top, selection) for the ith file. If ``**kwargs`` are
    specified, all are passed as keyword args to all calls to md.load.

    Parameters
    ----------
    filenames : list
        A list of relative paths to the trajectory files to be loaded.
        The md.load function is used, and all file types md.load
        supports are supported by this function.
    lengths : list, optional, default=None
        List of lengths of the underlying trajectories. If None, the
        lengths will be inferred. However, this can be slow, especially
        as the number of trajectories grows large. This option provides
        a speed benefit only.
    processes : int, optional
        The number of processes to spawn for loading in parallel.
    args : list, optional
        A list of dictionaries, each of which corresponds to additional
        kwargs to be passed to each of filenames.

    Returns
    -------
    (lengths, xyz) : tuple
       A 2-tuple of trajectory lengths (list of ints, frames) and
       coordinates (ndarray, shape=(n_atoms, n_frames, 3)).

    See Also
    --------
    md.load
    '''

    # we need access to this as a list, so if we get some kind of
    # wierd iterator we need to build a list out of it
    filenames = list(filenames)

    # configure arguments to md.load
    if kwargs and args:
        raise exception.ImproperlyConfigured(
            "Additional unnamed args can only be supplied iff no "
            "additonal keyword args are supplied")
    elif kwargs:
        args = [kwargs] * len(filenames)
    elif args:
        if len(args) != len(filenames):
            raise exception.ImproperlyConfigured(
                "When add'l unnamed args are provided, len(args) == "
                "len(filenames), but %s != %s." % (len(args), len(filenames)))
    else:  # not args and not kwargs
        args = [{}] * len(filenames)

    logger.debug(
        "Configuring load calls with args[0] == [%s ... %s]",
        args[0], args[-1])

    if lengths is None:
        logger.debug("Sounding %s trajectories with %s processes.",
                     len(filenames), processes)
        with mp.Pool(processes=processes) as pool:
            lengths = pool.starmap(
                sound_trajectory,
                [(f, kw.get('stride', 1)) for f, kw
                 in zip(filenames, args) if 'frame' not in kw])

        # trjs with frame are always length 1, add that to lengths now
        for i, kw in enumerate(args):
            if 'frame' in kw:
                lengths.insert(i, 1)
    else:
        logger.debug("Using given lengths")
        if len(lengths) != len(filenames):
            raise exception.ImproperlyConfigured(
                "Lengths list (len %s) didn't match length of filenames"
                " list (len %s)", len(lengths), len(filenames))

    tmp_args = dict(args[0])
    if 'frame' in tmp_args: del tmp_args['frame']
    full_shape, shared_array = shared_array_like_trj(
        lengths, example_trj=md.load(filenames[0], frame=0, **tmp_args))

    logger.debug("Allocated array of shape %s", full_shape)

    with closing(mp.Pool(processes=processes, initializer=_init,
                         initargs=(shared_array,))) as p:
        proc = p.map_async(
            partial(_load_to_position, arr_shape=full_shape),
            zip([sum(lengths[0:i]) for i in range(len(lengths))],
                filenames, args))

    # gather exceptions.
    shapes = proc.get()

    if sum(s[0] for s in shapes) != full_shape[0]:
        raise exception.DataInvalid(
            "The provided lengths (n=%s, total frames %s) weren't correct. "
            "The correct total number of frames was %s.", len(lengths),
            sum(s[0] for s in shapes), full_shape[0])

    # wait for termination
    p.join()

    xyz = _tonumpyarray(shared_array).reshape(full_shape)

    return lengths, xyz


def concatenate_trjs(trj_list, atoms=None, n_procs=None):
    """Convert a list of trajectories into a single trajectory building
    a concatenated array in parallel.

    Parameters
    ----------
    trj_list : array-like, shape=(n_trjs,)
        The list of md.Trajectory objects
    atoms : str, default=None
        A selection in the MDTraj DSL for atoms to slice out from each
        trajectory in `trj_list`. If none, no slice is performed.
    n_procs : int, default=None
        Number of parallel processes to use when performing this
        operation.

    Returns
    -------
    trj : md.Trajectory
        A concatenated trajectory
    """

    example_center = trj_list[0]
    if atoms is not None:
        example_center = example_center.atom_slice(
            example_center.top.select(atoms))

    lengths = [len(t) for t in trj_list]
    intervals = np.cumsum(np.array([0] + lengths))
    full_shape, shared_xyz = shared_array_like_trj(lengths, example_center)

    with closing(mp.Pool(processes=n_procs, initializer=_init,
                         initargs=(shared_xyz,))) as p:
        func = partial(_slice_and_insert_xyz, atoms=atoms,
                       arr_shape=full_shape)
        p.map(func, [(intervals[i], intervals[i+1], t)
                     for i, t in enumerate(trj_list)])
    p.join()

    xyz = _tonumpyarray(shared_xyz).reshape(full_shape)
    return md.Trajectory(xyz, topology=example_center.top)


def shared_array_like_trj(lengths, example_trj):

    # when we allocate the shared array below, we expect a float32
    # c_double seems to work with trajectories that use float32s. Why?
    # I have no idea.
    assert example_trj.xyz.dtype == np.float32
    shape = example_trj.xyz.shape

    # TODO: check all inputs against root

    full_shape = (sum(lengths), shape[1], shape[2])

    # mp.Arrays are one-dimensional, so multiply the shape together for size
    try:
        dtype = ctypes.c_float
        shared_array = mp.Array(dtype, reduce(mul, full_shape, 1),
                                lock=False)
    except OSError as e:
        if e.args[0] != 28:
            raise
        arr_bytes = reduce(mul, full_shape, 1) * ctypes.sizeof(dtype)
        raise exception.InsufficientResourceError(
            ("Couldn't allocate array of size %.2f GB to %s as part of "
             "loading trajectories in parallel. Check this partition "
             "to ensure it has sufficient space or set $TMPDIR to a "
             "path that does have sufficient space. (See the tempfile "
             "module documentation on this behavior.)") %
            (os.path.basename(mp.util.get_temp_dir()),
             arr_bytes / 1024**3))

    return full_shape, shared_array


def _slice_and_insert_xyz(spec, arr_shape, atoms):
    """Slice out atoms and insert xyz of trajectory into larger array.

    Parameters
    ----------
    spec : tuple, shape=(2,)
        The index,
    arr_shape : tuple, shape=(3,)
        The shape of the master array.
    atoms : int, default=None
        Number of parallel processes to use when performing this
        operation.

    Returns
    -------
    shape : tuple, shape=(3,)
        The sizes of the inserted array
    """
    start, end, c = spec

    if atoms is not None:
        c = c.atom_slice(c.top.select(atoms))

    if c.xyz.shape[1:] != arr_shape[1:]:
        raise exception.DataInvalid(
            'Trajectory at %s had improper shape %s, expected %s.' %
            ((start, end), c.xyz.shape, arr_shape))

    # reshape shared array and set it.
    arr = _tonumpyarray(shared_array).reshape(arr_shape)
    arr[start:end] = c.xyz

    return c.xyz.shape


def _init(shared_array_):
    # for some reason, the shared array must be inhereted, not passed
    # as an argument
    global shared_array
    shared_array = shared_array_


def _tonumpyarray(mp_arr, dtype='float32'):
    # mp_arr.get_obj if Array is locking, otherwise mp_arr.
    return np.frombuffer(mp_arr, dtype=dtype)


def _load_to_position(spec, arr_shape):
    '''
    Load a specified file into a specified position by spec. The
    arr_shape parameter lets us know how big the final array should be.
    '''
    (position, filename, load_kwargs) = spec

    xyz = md.load(filename, **load_kwargs).xyz

    # mp.Array must be converted to numpy array and reshaped
    arr = _tonumpyarray(shared_array).reshape(arr_shape)

    # dump coordinates in.
    arr[position:position+len(xyz)] = xyz

    return xyz.shape

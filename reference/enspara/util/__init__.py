"""General purpose utilities for loading, logging, and other misc tasks.
"""

from .load import load_as_concatenated
from .parallel import pool_dense2d, pool_sparse2d

# Author: Gregory R. Bowman <gregoryrbowman@gmail.com>
# Contributors:
# Copyright (c) 2016, Washington University in St. Louis
# All rights reserved.
# Unauthorized copying of this file, via any medium is strictly prohibited
# Proprietary and confidential

from __future__ import print_function, division, absolute_import

import os
import ctypes
import functools
import multiprocessing as mp
import numpy as np
import scipy
import scipy.sparse
import scipy.sparse.linalg


def auto_nprocs():
    return int(os.getenv('OMP_NUM_THREADS', mp.cpu_count()))


def pool_dense2d(arr, processes=None):
    # arr is a dense 2D array shared between the workers
    # returns a pool and a function a worker can use to get the shared array
    # no lock, so only read the shared matrix
    def init(shared_arr_):
        global shared_arr
        shared_arr = shared_arr_

    n_elem = arr.shape[0] * arr.shape[1]
    shared_arr = mp.Array(ctypes.c_double, n_elem, lock=False)
    shared_arr[:] = arr.flatten().astype('float64')
    p = mp.Pool(processes=processes, initializer=init, initargs=(shared_arr,))

    return p, functools.partial(_retrieve_dense2d, arr.shape)


def _retrieve_dense2d(shape):
    np_arr = np.frombuffer(shared_arr)
    np_arr = np_arr.reshape(shape)
    return np_arr


def pool_sparse2d(arr, processes=None):
    # arr is a dense 2D array shared between the workers
    # returns a pool and a function a worker can use to get the shared array
    # no lock, so only read the shared matrix
    def init(shared_arr_):
        global shared_arr
        shared_arr = shared_arr_

    n_elem = 3 * arr.nnz
    i, j = arr.nonzero()
    data = arr[arr.nonzero()].toarray()[0]
    shared_arr = mp.Array(ctypes.c_double, n_elem, lock=False)
    shared_arr[:arr.nnz] = data.astype('float64')
    shared_arr[arr.nnz:2*arr.nnz] = i.astype('float64')
    shared_arr[2*arr.nnz:] = j.astype('float64')
    p = mp.Pool(initializer=init, initargs=(shared_arr,))

    return p, functools.partial(_retrieve_sparse2d, arr.shape)


def _retrieve_sparse2d(shape):
    np_arr = np.frombuffer(shared_arr)
    nnz = np_arr.shape[0]/3
    data = np_arr[:nnz]
    i = np_arr[nnz:2*nnz].astype(int)
    j = np_arr[2*nnz:].astype(int)
    sparse_arr = scipy.sparse.coo_matrix((data, (i, j)), shape=shape)
    return sparse_arr.tolil()

import warnings

from ..ra.ra import *

warnings.warn('enspara.util.array has been moved to its own module at '
              'enspara.ra', PendingDeprecationWarning)

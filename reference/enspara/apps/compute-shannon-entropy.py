# -*- coding: utf-8 -*-

"""This apps script computes the Shannon entropy for each residue using the definition
of rotamers established by the CARDS framework. Shannon entropy is computed for each 
individual dihedral before being combined on a per-residue basis. A normalization is 
also applied so that the per-residue entropy spans from 0 to 1, where 1 is the 
maximum possible entropy for a single residue. Each dihedral has either 2 or 3 rotameric 
states, for backbone and sidechain dihedrals respectively. 

If you use this Shannon entropy, please cite the following paper: 
-----------------------------------------------------
[1] Sukrit Singh and Gregory R. Bowman, "Quantifying allosteric communication via 
    both concerted structural changes and conformational disorder with CARDS".
    Journal of Chemical Theory and Computation 2017 13 (4), 1509-1517
    DOI: 10.1021/acs.jctc.6b01181 

[2] Justin R Porter, Maxwell I Zimmerman, Gregory R Bowman, "Enspara: Modeling molecular 
    ensembles with scalable data structures and parallel computing". 
    bioRxiv 431072; doi: https://doi.org/10.1101/431072 
"""

import sys
import argparse
import os
import logging
import itertools
import pickle
import json
import warnings
import numpy as np
import mdtraj as md

from glob import glob 
from enspara.cards import cards
from enspara.util.parallel import auto_nprocs
from enspara.util import array as ra
from enspara.util import load_as_concatenated
from enspara.apps.util import readable_dir
from enspara.util.log import timed
from enspara.cards import featurizers as feat
from enspara.info_theory import entropy as ent
from enspara.info_theory import mutual_info as mut

logging.basicConfig(
    level=logging.INFO,
    format=('%(asctime)s %(name)-8s %(levelname)-7s %(message)s'),
    datefmt='%m-%d-%Y %H:%M:%S')

from enspara.geometry import libdist

from enspara import exception

logger = logging.getLogger(__name__)
logger.setLevel(logging.INFO)

def process_command_line(argv):
    """Parse the command line and do a first-pass on processing them into a
    format appropriate for the rest of the script.

    Parameters
    ----------
    argv : list of str
        The command line arguments.

    Returns
    -------
    args : argparse.Namespace
        The parsed arguments.

    Raises
    ------
    exception.ImproperlyConfigured
        If the buffer size is not between 0 and 360.
    """
    parser = argparse.ArgumentParser(
        formatter_class=argparse.RawDescriptionHelpFormatter,
        description="Compute Shannon entropy per dihedral for a set of trajectories "
                    "and save entropies and dihedral mappings.\n \n"
                    "Please cite the following papers if you use CARDS with enspara:\n"
                    "[1] Singh, S. and Bowman, G.R.\n" 
                    "    Journal of Chemical Theory and Computation\n"
                    "    2017 13 (4), 1509-1517\n"
                    "    DOI: 10.1021/acs.jctc.6b01181\n"
                    "\n"
                    "[2] Porter,J.R.,  Zimmerman, M.I., and Bowman G.R.\n"
                    "    bioRxiv 431072; doi: https://doi.org/10.1101/431072\n")

    # INPUTS
    input_args = parser.add_argument_group("Input Settings")
    input_args.add_argument(
        '--trajectories', required=True, nargs="+", action='append',
        help="List of paths to aligned trajectory files to cluster. "
             "All file types that MDTraj supports are supported here.")
    input_args.add_argument(
        '--topology', required=True, action='append',
        help="The topology file for the trajectories.")

    # PARAMETERS
    cards_args = parser.add_argument_group("CARDS Settings")
    cards_args.add_argument(
        '--buffer-size', default=15, type=int,
        help="Size of buffer zone between rotameric states, in degrees.")
    cards_args.add_argument(
        "--processes", default=max(1, auto_nprocs()/4), type=int,
        help="Number of processes to use.")

    # OUTPUT
    output_args = parser.add_argument_group("Output Settings")
    output_args.add_argument(
        '--entropies', action=readable_dir,
        help="The location to write the normalized entropies file (as CSV)")

    args = parser.parse_args(argv[1:])

    # FEATURES
    if not (0 < args.buffer_size < 360):
        raise exception.ImproperlyConfigured(
            "The given buffer size (%s) is not possible." %
            args.buffer_size)

    return args


def load_trajs(args):
    """ Creates a generator object that is passed onto the CARDS framework.

    Parameters
    ----------
    args : argparse.Namespace
        The parsed arguments.

    Returns
    -------
    gen : generator
        A generator object that yields the loaded trajectories.

    Raises
    ------
    exception.ImproperlyConfigured
        If the number of trajectories and topologies do not match.
    """
    trajectories = args.trajectories
    topology = args.topology[0]
    #filenames = glob(trajectories)
    targets = {os.path.basename(topf): "%s files" % len(trjfs) for topf, trjfs
               in zip(args.topology, args.trajectories)}
    logger.info("Computing Shannon entropies; targets:\n%s",
                json.dumps(targets, indent=4))

    gen = (md.load(traj, top=topology) for traj in args.trajectories)

    return gen


def compute_rotamer_counts(rotamers): 
    """Use existing framework of computing joint counts matrices
    to compute the rotamer counts for each dihedral across each trajectory.

    Parameters
    ----------
    rotamers : RotamerFeaturizer
        The RotamerFeaturizer object from the CARDS framework.

    Returns
    -------
    final_counts : np.array
        The final counts for each dihedral across all trajectories.
    """
    jc = None
    feature_trajs = rotamers.feature_trajectories_
    num_rotamer_features = rotamers.n_feature_states_

    for i,(x,y) in enumerate(zip(feature_trajs, feature_trajs)):
        jc_i = mut.joint_counts(x,y, np.max(num_rotamer_features), 
                                np.max(num_rotamer_features))

        if not hasattr(jc, 'shape'):
            jc = jc_i
        else: 
            jc += jc_i

    # The final jc matrix represents the joint counts matrix for each rotamer. 
    # We can conver this joint counts matrix into a set of counts per matrix
    # this can be done by summing across each joint_count matrix
    n_obs_a_i = jc.sum(axis=-1)

    # However, this amount of data is redundant, since each element at [i,i] 
    # will contain the counts we need to compute entropies
    # This can be done relatively easily
    final_counts = []
    for i in range(jc.shape[0]):
        counts = n_obs_a_i[i,i]
        final_counts.append(counts)

    return np.asarray(final_counts)

def compute_dihedral_shannon_entropy(probs):
    """Computes a shannon entropy for every dihedral in the simulation set. 

    Parameters
    ----------
    probs : np.array
        The probability distribution for each dihedral.

    Returns
    -------
    entropy_values : np.array
        The entropy values for each dihedral.
    """
    num_dihedrals = probs.shape[0]

    entropy_values = np.zeros(shape=num_dihedrals)

    for i in range(num_dihedrals):
        entropy_values[i] = ent.shannon_entropy(probs[i])

    return entropy_values


def sum_dihedral_entropies(dihedral_entropies, resi_mapping, n_resis):
    """This sums the dihedral entropies into an array of per-residue entropies.

    Parameters
    ----------
    dihedral_entropies : np.array
        The entropies for each dihedral.
    resi_mapping : np.array
        The mapping of each dihedral to a residue.
    n_resis : int
        The number of residues in the system.

    Returns
    -------
    summed_entropies : np.array
        The summed entropies for each residue.
    """
    summed_entropies = np.zeros(n_resis)
    for i in range(n_resis):
        summed_entropies[i] = dihedral_entropies[resi_mapping == i].sum()

    return summed_entropies

def compute_channel_capacities(n_states_array, resi_list, n_resis):
    """This computes the maximum possible entropy any one residue can have, based on 
    the number of dihedrals it has and the number of states each dihedral can adopt.

    Parameters
    ----------
    n_states_array : np.array
        The number of states for each dihedral.
    resi_list : np.array
        The mapping of each dihedral to a residue.
    n_resis : int
        The number of residues in the system.
    """
    # The maximum possible entropy for any one residue is 
    # np.sum(n*log(b)) where there are n total dihedrals and each dihedral has b states
    # so this sums across all n and all b 

    channel_capacities = np.zeros(n_resis)

    for i in range(n_resis):
        rots_per_residue = n_states_array[resi_list == i]
        channel_capacities[i] = np.sum([np.sum(np.log(val)) 
            for val in rots_per_residue])

    return channel_capacities


def compute_residue_shannon_entropies(
    dihedral_entropies, topologyFile, atom_inds, n_states):
    """Compiles the dihedral level entropies into a single list of per-residue 
    Shannon entropies. Returns both as separate arrays.

    Parameters
    ----------
    dihedral_entropies : np.array
        The entropies for each dihedral.
    topologyFile : str
        The topology file for the system.
    atom_inds : np.array
        The atom indices for each dihedral.
    n_states : np.array
        The number of states for each dihedral.

    Returns
    -------
    normalized_entropies : np.array
        The normalized Shannon entropies for each residue.  
    resi_list : np.array
        The list of unique residues in the system.
    """

    # First we need to load our topology for matching up residues
    structure = md.load(topologyFile)
    n_resis = structure.top.n_residues
    num_dihedrals = dihedral_entropies.shape[0]

    # Now we define a mapping array to identify the residue each entropy maps to
    resi_list = np.zeros(num_dihedrals)
    
    # Now we identify which residue each dihedral belongs to
    for i in range(num_dihedrals):
        dihedral = atom_inds[i]
        identifying_atom = dihedral[1]
        # Subtract 1 from the index we extract because residue numbering starts at 1
        index_val = structure.top.atom(identifying_atom).residue.resSeq - 1 
        resi_list[i] = index_val

    # now that we've populated the mapping - let's combine some dihedrals and normalize
    # First we compute the total entroy per residue
    total_entropies = sum_dihedral_entropies(dihedral_entropies, resi_list, 
                                                structure.top.n_residues)
    # Then we compute each residue's total possible entropy 
    residue_channel_capacity = compute_channel_capacities(n_states, resi_list, 
                                                            structure.top.n_residues)

    # Finally, we do total/capacity to normalize - this is our final array
    normalized_entropies = total_entropies / residue_channel_capacity
    for i in range(n_resis):
        if total_entropies[i] > residue_channel_capacity[i]: print("bug")

    # We will return the final normalized entropies and a simple list of unique
    # residue IDs - making it easier to manage

    # We add one back to the resi_list we return because it is not used for indexing but
    # for saving on a per residue basis

    return normalized_entropies, np.unique(resi_list+1) 


def compute_shannon_entropies(args, trj_list):
    """Main modular method which takes arguments and computes the final per-residue
    Shannon entropy for saving.

    Parameters
    ----------
    args : argparse.Namespace
        The parsed arguments.
    trj_list : generator
        A generator object that yields the loaded trajectories.

    Returns
    -------
    residue_entropy : np.array
        The final per-residue entropies.
    resi_list : np.array
        The list of unique residues in the system.
    """
    trajectories = args.trajectories
    topology = args.topology[0]

    # First we extract the rotamers using the Rotamer_Featurizer within CARDS
    rotamers = feat.RotamerFeaturizer(args.buffer_size, args.processes)
    rotamers.fit(trj_list)

    # Then we convert the counts for each dihedral's rotamers
    counts = compute_rotamer_counts(rotamers)

    
    # Now that we have the counts per dihedral, we convert them  
    # probabilities for each rotameric bin
    P_a = counts/counts.sum(axis=-1)[...,None]

    # P_a now contains the probability distribution across rotamers for each 
    # dihedral. Each dihedral represents a single row in P_a

    # From these probabilities, we can compute the total shannon entropy for 
    # each dihedal 
    entropy_per_dihedral = compute_dihedral_shannon_entropy(P_a)

    # Now we need to combine these entropies on a per-residue basis
    # When we do so, we all need to normalize out each per-residue entropy by 
    # the maximum possible entropy of that residue (or the channel capacity)
    residue_entropy, resi_list = compute_residue_shannon_entropies(entropy_per_dihedral, 
                                                                    topology, 
                                                                    rotamers.atom_indices_,
                                                                    rotamers.n_feature_states_)
    return residue_entropy, resi_list


def save_all_entropies(entropies, residues, fileName):
    """Saves the final per-residue entropies as a CSV file with the corresponding
    residue ID. 

    Parameters
    ----------
    entropies : np.array
        The per-residue entropies.
    residues : np.array
        The list of unique residues in the system.
    fileName : str
        The name of the file to save the entropies to.

    Returns
    -------
    int
        0 if the file was saved successfully.
    """
    final_entropy_data = np.vstack((residues, entropies)).T

    np.savetxt(fileName, final_entropy_data, delimiter=",")

    return 0 



def main(argv=None):
    """Run the driver script for this module. This code only runs if we're
    being run as a script. Otherwise, it's silent and just exposes methods.
    
    Parameters
    ----------
    argv : list of str
        The command line arguments.
        
    Returns
    -------
    int
        The return code.

    Raises
    ------
    exception.ImproperlyConfigured
        If the buffer size is not between 0 and 360.
    """
    args = process_command_line(argv)
    
    logger.info("Loading trajectories...")
    trj_list = load_trajs(args)

    with timed("Calculating Shannon entropy took %.1f s.", logger.info):
        entropies, residues = compute_shannon_entropies(args, trj_list)

    logger.info("Completed entropy calculation. ")

    save_all_entropies(entropies, residues, args.entropies)

    logger.info("Saved all entropies as as %s", args.entropies)

    return 0 



if __name__ == "__main__":
    sys.exit(main(sys.argv))


"""The cluster app allows you to cluster your trajectories based on
distances from one another in a feature space. The entire protein or
specific residue locations can be used for the clustering. Parameters
such as the clustering algorithm and cluster radius can be specified.
The app will return information about cluster centers and frame
assignments. See the apps tab for more information.
"""

import sys
import argparse
import os
import logging
import itertools
import pickle
import json
from glob import glob

import numpy as np
import mdtraj as md

try:
    # this mpi will get overriden by the enspara mpi module in a few lines.
    from mpi4py.MPI import COMM_WORLD as mpi

    # this happens now and here becuase otherwise these changes to logging
    # don't propagate to enspara submodules.
    if mpi.Get_size() > 1:
        RANKSTR = "[Rank %s]" % mpi.Get_rank()
        logging.basicConfig(
            level=logging.DEBUG if mpi.Get_rank() == 0 else logging.INFO,
            format=('%(asctime)s ' + RANKSTR +
                    ' %(name)-26s %(levelname)-7s %(message)s'),
            datefmt='%m-%d-%Y %H:%M:%S')
        mpi_mode = True
    else:
        logging.basicConfig(
            level=logging.INFO,
            format=('%(asctime)s %(name)-8s %(levelname)-7s %(message)s'),
            datefmt='%m-%d-%Y %H:%M:%S')
        mpi_mode = False

except ModuleNotFoundError:
    logging.basicConfig(
        level=logging.INFO,
        format=('%(asctime)s %(name)-8s %(levelname)-7s %(message)s'),
        datefmt='%m-%d-%Y %H:%M:%S')
    mpi_mode = False

from enspara.apps.util import readable_dir

from enspara import mpi
from enspara.cluster import KHybrid, KCenters, KMedoids
from enspara import ra
from enspara.util import load_as_concatenated
from enspara.util.log import timed
from enspara.util.parallel import auto_nprocs
from enspara.cluster import util 

from enspara.geometry import libdist

from enspara import exception
from enspara import mpi


logger = logging.getLogger(__name__)
logger.setLevel(logging.INFO)


def process_command_line(argv):

    FEATURE_DISTANCES = ['euclidean', 'manhattan']
    TRAJECTORY_DISTANCES = ['rmsd']
    ALGORITHMS = {
                  'kcenters': KCenters,
                  'khybrid': KHybrid,
                  'kmedoids': KMedoids
}

    parser = argparse.ArgumentParser(
        prog='cluster',
        formatter_class=argparse.ArgumentDefaultsHelpFormatter,
        description="Cluster a set (or several sets) of trajectories "
                    "into a single state space based upon RMSD.")

    # INPUTS
    input_args = parser.add_argument_group("Input Settings")
    input_data_group = parser.add_mutually_exclusive_group(required=True)
    input_data_group.add_argument(
        "--features", nargs='+',
        help="The h5 file containin observations and features.")
    input_data_group.add_argument(
        '--trajectories', nargs="+", action='append',
        help="List of paths to aligned trajectory files to cluster. "
             "All file types that MDTraj supports are supported here.")
    input_args.add_argument(
        '--topology', action='append', dest='topologies',
        help="The topology file for the trajectories. This flag must be"
             " specified once for each instance of the --trajectories "
             "flag. The first --topology flag is taken to be the "
             "topology to use for the first instance of the "
             "--trajectories flag, and so forth.")

    # PARAMETERS
    cluster_args = parser.add_argument_group("Clustering Settings")
    cluster_args.add_argument(
        '--algorithm', required=True,
        choices=["khybrid", "kcenters", "kmedoids"],
        help="The clustering algorithm to use.")
    cluster_args.add_argument(
        '--atoms', action="append",
        help="When clustering trajectories, specifies which atoms from the "
             "trajectories (using MDTraj atom-selection syntax) to cluster "
             "based upon. Specify once to apply this selection to every set "
             "of trajectories specified by the --trajectories flag, or "
             "once for each different topology (i.e. the number of "
             "times --trajectories and --topology was specified.)")
    cluster_args.add_argument(
        '--cluster-radius', default=None, type=float,
        help="Produce clusters with a maximum distance to cluster "
             "center of this value.")
    cluster_args.add_argument(
        '--cluster-number', default=None, type=int,
        help="Produce at least this number of clusters.")
    cluster_args.add_argument(
        "--cluster-distance", default=None,
        choices=FEATURE_DISTANCES + TRAJECTORY_DISTANCES,
        help="The metric for measuring distances. Some metrics (e.g. rmsd) "
             "only apply to trajectories, and others only to features.")
    cluster_args.add_argument(
        "--cluster-iterations", default=None, type=int,
        help="The number of refinement iterations to perform. This is only "
             "relevant to khybrid clustering.")
    cluster_args.add_argument(
        "--save_intermediates", default=False, type=bool,
        help="Save intermediate clustering results when doing khybrid? ")
    cluster_args.add_argument(
        "--init-center-inds", default=None, type=str,
        help="Path to a .npy file that is a list giving the position of "
             "each cluster center in traj. Useful for restarting clustering.")
    cluster_args.add_argument(
        "--init-assignments", default=None, type=str,
        help="Path to an .h5 file that indicates which cluster center each "
             "data point is closest to. Useful for restarting clustering")
    cluster_args.add_argument(
        "--init-distances", default=None, type=str,
        help="Path to an .h5 file that indicates how far each data point is"
             "to its cluster center. Useful for restarting clustering")
    cluster_args.add_argument(
        '--subsample', default=1, type=int,
        help="Take only every nth frame when loading trajectories. "
             "1 implies no subsampling.")

    # OUTPUT
    output_args = parser.add_argument_group("Output Settings")
    output_args.add_argument(
        '--no-reassign', default=False, action='store_true',
        help="Do not do a reassigment step. Ignored if --subsample is "
             "not supplied or 1.")

    output_args.add_argument(
        '--distances', required=True, action=readable_dir,
        help="The location to write the distances file.")
    output_args.add_argument(
        '--center-features', required=True, action=readable_dir,
        help="The location to write the cluster center structures.")
    output_args.add_argument(
        '--assignments', required=True, action=readable_dir,
        help="The location to write assignments of frames to clusters.")
    output_args.add_argument(
        "--center-indices", required=False, action=readable_dir,
        help="Location for cluster center indices output (pickle).")

    args = parser.parse_args(argv[1:])

    if args.features:
        args.features = util.expand_files([args.features])[0]

        if args.cluster_distance in FEATURE_DISTANCES:
            args.cluster_distance = getattr(libdist, args.cluster_distance)
        else:
            raise exception.ImproperlyConfigured(
                "The given distance (%s) is not compatible with features." %
                args.cluster_distance)

        if args.subsample != 1 and len(args.features) == 1:
                raise exception.ImproperlyConfigured(
                    "Subsampling is not supported for h5 inputs.")

        # TODO: not necessary if mutually exclusvie above works
        if args.trajectories:
            raise exception.ImproperlyConfigured(
                "--features and --trajectories are mutually exclusive. "
                "Either trajectories or features, not both, are clustered.")
        if args.topologies:
            raise exception.ImproperlyConfigured(
                "When --features is specified, --topology is unneccessary.")
        if args.atoms:
            raise exception.ImproperlyConfigured(
                "Option --atoms is only meaningful when clustering "
                "trajectories.")
        if not args.cluster_distance:
            raise exception.ImproperlyConfigured(
                "Option --cluster-distance is required when clustering "
                "features.")

    elif args.trajectories and args.topologies:
        args.trajectories = util.expand_files(args.trajectories)

        if not args.cluster_distance or args.cluster_distance == 'rmsd':
            args.cluster_distance = md.rmsd
        else:
            raise exception.ImproperlyConfigured(
                "Option --cluster-distance must be rmsd when clustering "
                "trajectories.")

        if not args.atoms:
            raise exception.ImproperlyConfigured(
                "Option --atoms is required when clustering trajectories.")
        elif len(args.atoms) == 1:
            args.atoms = args.atoms * len(args.trajectories)
        elif len(args.atoms) != len(args.trajectories):
            raise exception.ImproperlyConfigured(
                "Flag --atoms must be provided either once (selection is "
                "applied to all trajectories) or the same number of times "
                "--trajectories is supplied.")

        if len(args.topologies) != len(args.trajectories):
            raise exception.ImproperlyConfigured(
                "The number of --topology and --trajectory flags must agree.")

    else:
        # CANNOT CLUSTER
        raise exception.ImproperlyConfigured(
            "Either --features or both of --trajectories and --topologies "
            "are required.")

    if args.cluster_radius is None and args.cluster_number is None:
        raise exception.ImproperlyConfigured(
            "At least one of --cluster-radius and --cluster-number is "
            "required to cluster.")

    args.Clusterer = ALGORITHMS[args.algorithm]
    if args.Clusterer is KCenters:
        if args.cluster_iterations is not None:
            raise exception.ImproperlyConfigured(
                "--cluster-iterations only has an effect when using an "
                "interative clustering scheme (e.g. khybrid).")
    if args.Clusterer is KMedoids:
        if args.cluster_radius is not None:
            raise exception.ImproperlyConfigured(
                "--cluster-radius only has an effect when using kcenters"
                " or khybrid.")
    else:
        restart_arg_names = [args.init_center_inds, args.init_distances,
            args.init_assignments]
        for name in restart_arg_names:
            if name:
                raise exception.ImproperlyConfigured(
                    "--init-center-inds, --init-distances, and"
                    "--init-assignments are only implemented for kmedoids")


    if args.no_reassign and args.subsample == 1:
        logger.warn("When subsampling is 1 (or unspecified), "
                    "--no-reassign has no effect.")
    if not args.no_reassign and mpi_mode and args.subsample > 1:
        logger.warn("Reassignment is suppressed in MPI mode.")
        args.no_reassign = True

    if args.trajectories:
        if os.path.splitext(args.center_features)[1] == '.h5':
            logger.warn(
                "You provided a centers file (%s) that looks like it's "
                "an h5... centers are saved as pickle. Are you sure this "
                "is what you want?")
    else:
        if os.path.splitext(args.center_features)[1] != '.npy':
            logger.warn(
                "You provided a centers file (%s) that looks like it's not "
                "an npy, but this is how they are saved. Are you sure "
                "this is what you want?" %
                os.path.basename(args.center_features))

    return args


def main(argv=None):

    args = process_command_line(argv)

    # note that in MPI mode, lengths will be global, whereas data will
    # be local (i.e. only this node's data).
    lengths, data = util.load_trjs_or_features(args)

    kwargs = {}
    if args.cluster_iterations is not None:
        if args.Clusterer is KHybrid:
            kwargs['kmedoids_updates'] = int(args.cluster_iterations)
        elif args.Clusterer is KMedoids:
            kwargs['n_iters'] = int(args.cluster_iterations)
        if args.Clusterer is not KCenters:
            kwargs['args']=args
            kwargs['lengths']=lengths

    #kmedoids doesn't need a cluster radius, but kcenters does
    if args.cluster_radius is not None:
        kwargs['cluster_radius']=args.cluster_radius
        kwargs['mpi_mode']=mpi_mode

    clustering = args.Clusterer(
        metric=args.cluster_distance,
        n_clusters=args.cluster_number,
        **kwargs)
    
    # Note to self: Need to implement restarts for KCenters as well
    kwargs_restart = {}
    if args.Clusterer is KMedoids:
        if args.init_distances:
            _, kwargs_restart['distances'] = \
                 mpi.io.load_h5_as_striped(args.init_distances)
        if args.init_assignments:
            kwargs_restart['X_lengths'], kwargs_restart['assignments'] = \
                mpi.io.load_h5_as_striped(args.init_assignments)
        if args.save_intermediates:
            kwargs_restart['args']=args
        if args.init_center_inds:
            kwargs_restart['cluster_center_inds'] = \
                np.load(args.init_center_inds) 
        clustering.fit(data,**kwargs_restart)
    else:
        clustering.fit(data)
    # release the RAM held by the trajectories (we don't need it anymore)
    del data

    logger.info(
        "Clustered %s frames into %s clusters in %s seconds.",
        sum(lengths), len(clustering.centers_), clustering.runtime_)

    result = clustering.result_
    if mpi_mode:
        local_ctr_inds, local_dists, local_assigs = \
            result.center_indices, result.distances, result.assignments

        with timed("Reassembled dist and assign arrays in %.2f sec",
                   logging.info):
            all_dists = mpi.ops.assemble_striped_ragged_array(
                local_dists, lengths)
            all_assigs = mpi.ops.assemble_striped_ragged_array(
                local_assigs, lengths)
            ctr_inds = mpi.ops.convert_local_indices(local_ctr_inds, lengths)

        result = util.ClusterResult(
            center_indices=ctr_inds,
            distances=all_dists,
            assignments=all_assigs,
            centers=result.centers)
    result = result.partition(lengths)

    if mpi.rank() == 0:
        with timed("Wrote center indices in %.2f sec.", logger.info):
            util.write_centers_indices(
                args.center_indices,
                [(t, f * args.subsample) for t, f in result.center_indices])
        with timed("Wrote center structures in %.2f sec.", logger.info):
            util.write_centers(result, args)
        util.write_assignments_and_distances_with_reassign(result, args)

    mpi.comm.barrier()

    logger.info("Success! Data can be found in %s.",
                os.path.dirname(args.distances))

    return 0


if __name__ == "__main__":
    sys.exit(main(sys.argv))

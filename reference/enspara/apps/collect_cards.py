# -*- coding: utf-8 -*-

"""CARDS is a method for quantifying correlated motions between residues in a 
protein. This method works by classifying all dihedrals of a protein into 
rotameric and dynamical states. Each dihedral has either 2 or 3 rotameric 
states, for backbone and sidechain dihedrals respectively, and 2 dynamical states 
representing whether or not the dihedral is ordered or disordered. 
If you use CARDS, please cite the following papers: 
-----------------------------------------------------
[1] Sukrit Singh and Gregory R. Bowman, "Quantifying allosteric communication via 
    both concerted structural changes and conformational disorder with CARDS".
    Journal of Chemical Theory and Computation 2017 13 (4), 1509-1517
    DOI: 10.1021/acs.jctc.6b01181 
[2] Justin R Porter, Maxwell I Zimmerman, Gregory R Bowman, "Enspara: Modeling molecular 
    ensembles with scalable data structures and parallel computing". 
    bioRxiv 431072; doi: https://doi.org/10.1101/431072 
"""


import sys
import argparse
import os
import logging
import itertools
import pickle
import json
import warnings
import numpy as np
import mdtraj as md


from glob import glob 
from enspara.cards import cards
from enspara.util.parallel import auto_nprocs
from enspara import ra
from enspara.util import load_as_concatenated
from enspara.apps.util import readable_dir
from enspara.util.log import timed


logging.basicConfig(
    level=logging.INFO,
    format=('%(asctime)s %(name)-8s %(levelname)-7s %(message)s'),
    datefmt='%m-%d-%Y %H:%M:%S')


from enspara.geometry import libdist

from enspara import exception


logger = logging.getLogger(__name__)
logger.setLevel(logging.INFO)


def process_command_line(argv):
    '''Parse the command line and do a first-pass on processing them into a
    format appropriate for the rest of the script.'''

    parser = argparse.ArgumentParser(
        formatter_class=argparse.RawDescriptionHelpFormatter,
        description="Compute CARDS matricies for a set of trajectories "
                    "and save all matrices and dihedral mappings.\n \n"
                    "Please cite the following papers if you use CARDS with enspara:\n"
                    "[1] Singh, S. and Bowman, G.R.\n" 
                    "    Journal of Chemical Theory and Computation\n"
                    "    2017 13 (4), 1509-1517\n"
                    "    DOI: 10.1021/acs.jctc.6b01181\n"
                    "\n"
                    "[2] Porter,J.R.,  Zimmerman, M.I., and Bowman G.R.\n"
                    "    bioRxiv 431072; doi: https://doi.org/10.1101/431072\n")

    # INPUTS
    input_args = parser.add_argument_group("Input Settings")
    #input_data_group = parser.add_mutually_exclusive_group(required=True)
    input_args.add_argument(
        '--trajectories', required=True, nargs="+", action='append',
        help="List of paths to aligned trajectory files to cluster. "
             "All file types that MDTraj supports are supported here.")
    input_args.add_argument(
        '--topology', required=True, action='append',
        help="The topology file for the trajectories.")

    # PARAMETERS
    cards_args = parser.add_argument_group("CARDS Settings")
    cards_args.add_argument(
        '--buffer-size', default=15, type=int,
        help="Size of buffer zone between rotameric states, in degrees.")
    cards_args.add_argument(
        "--processes", default=max(1, auto_nprocs()/4), type=int,
        help="Number of processes to use.")

    # OUTPUT
    output_args = parser.add_argument_group("Output Settings")
    output_args.add_argument(
        '--matrices', required=True, action=readable_dir,
        help="The folder location to write the four CARDS matrices (as pickle).")
    output_args.add_argument(
        '--indices', required=True, action=readable_dir,
        help="The location to write the dihedral indices file (as CSV).")

    args = parser.parse_args(argv[1:])

    # CARDS FEATURES
    if not (0 < args.buffer_size < 360):
        raise exception.ImproperlyConfigured(
            "The given buffer size (%s) is not possible." %
            args.buffer_size)

    return args



def load_trajectory_generator(trajectories, topology):
    """Load a list of trajectories and return a generator object that can be passed to the CARDS framework.
    
    Parameters
    ----------
    trajectories : list
        List of trajectory files to load.
    topology : str
        Path to the topology file.

    Returns
    -------
    generator
        A generator object that can be passed to the CARDS framework.
    """
    for i,t in enumerate(trajectories):
        logger.info('loading '+str(t))
        yield md.load(t, top=topology)



def load_trajs(args):
    """ Creates a generator object that can be then passed to the CARDS framework.

    Parameters
    ----------
    args : argparse.Namespace
        The parsed command line arguments.

    Returns
    -------
    generator
        A generator object that can be passed to the CARDS framework.
    """
    trajectories = args.trajectories[0]
    topology = args.topology[0]
    #filenames = glob(trajectories)
    targets = {os.path.basename(topf): "%s files" % len(trjfs) for topf, trjfs
               in zip(args.topology, args.trajectories)}
    logger.info("Starting CARDS; targets:\n%s",
                json.dumps(targets, indent=4))

    #gen = (md.load(traj, top=topology) for traj in args.trajectories)
    gen = load_trajectory_generator(trajectories, topology)

    logger.info("Created generator")

    return gen


def save_cards(ss_mi, dd_mi, sd_mi, ds_mi, outputName):
    """Save the four cards matrices as a single pickle file

    Parameters
    ----------
    ss_mi : numpy.ndarray
        The Struc_struc_MI matrix.
    dd_mi : numpy.ndarray
        The Disorder_disorder_MI matrix.
    sd_mi : numpy.ndarray
        The Struc_disorder_MI matrix.
    ds_mi : numpy.ndarray
        The Disorder_struc_MI matrix.
    outputName : str
        The path to save the matrices.

    Returns
    -------
    int
        Returns 0 if the matrices were saved successfully.
    """

    #final_mats = [ss_mi, dd_mi, sd_mi, ds_mi]
    final_mats = {
        'Struc_struc_MI': ss_mi, 
        'Disorder_disorder_MI': dd_mi,
        'Struc_disorder_MI': sd_mi,
        'Disorder_struc_MI': ds_mi, }
    
    logger.info("Saving matrices - saved as %s", outputName)

    with open(outputName, 'wb') as f:
        pickle.dump(final_mats, f)

    return 0 




def main(argv=None):
    """Run the driver script for this module. This code only runs if we're
    being run as a script. Otherwise, it's silent and just exposes methods.

    Parameters
    ----------
    argv : list
        The command line arguments to parse. If None, defaults to sys.argv.

    Returns
    -------
    int
        Returns 0 if the script ran successfully.
    """
    args = process_command_line(argv)

    trj_list = load_trajs(args)

    with timed("Calculating CARDS correlations took %.1f s.", logger.info):
        ss_mi, dd_mi, sd_mi, ds_mi, inds = cards(trj_list, args.buffer_size, 
                                                        args.processes)

    logger.info("Completed correlations. ")

    save_cards(ss_mi, dd_mi, sd_mi, ds_mi, args.matrices)
    np.savetxt(args.indices, inds, delimiter=",")

    logger.info("Saved dihedral indices as %s", args.indices)

    return 0 



if __name__ == "__main__":
    sys.exit(main(sys.argv))

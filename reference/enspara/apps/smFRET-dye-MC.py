"""The smFRET app allows you to convert your MSM into a single-molecule
FRET histogram based on the residue pairs of interest. Users specify
protein MSM structure centers and the transition probabilities between each center.

Users also specify dye MSMs to be used to map onto the protein. Dye lifetimes
will be simulated for each protein center via a Monte Carlo approach and the
resulting lifetimes will be used in a protein Monte Carlo to return the average FRET
efficiency per photon burst as well as the lifetimes of donor and acceptor photons
during that burst. 

Dyes may be mapped to any amino acid in the protein. As single-molecule FRET is 
highly dependent on true-to-experiment simulation timescales, you can also rescale the 
speed of your trajectories within an MSM. This code also enables adaptation to specific
smFRET experimental setups as users provide their own experimental FRET bursts. 
"""
# Author: Justin J Miller <justinjm@seas.upenn.edu>


import sys
import argparse
import logging
import os
import mdtraj as md
import numpy as np
import enspara
from functools import partial
from multiprocessing import get_context
from enspara.geometry import dyes_from_expt_dist as dyefs
from enspara.geometry import dye_lifetimes
from enspara.apps.util import readable_dir

logger = logging.getLogger(__name__)
logger.setLevel(logging.INFO)


def process_command_line(argv):
    parser = argparse.ArgumentParser(
        prog='smFRET',
        formatter_class=argparse.ArgumentDefaultsHelpFormatter,
        description="Convert an MSM and a series of FRET dye residue pairs into"
                    "the predicted FRET efficiency for each pair and fit to expt time"
                    "Multi-step process- calc lifetimes, calc FRET efficiency, fit time factor")

    subparsers = parser.add_subparsers(title='commands', dest='command',
                                       description='valid subcommands',
                                       help='Call a subparser!')

    ################################
    ### calc lifetimes subparser ###
    ################################
    calc_lifetimes_parser = subparsers.add_parser('calc_lifetimes', help='model FRET \
        dyes onto MSM centers and calculate their lifetimes')

    # Model dyes INPUTS
    calc_lts_input_args = calc_lifetimes_parser.add_argument_group("Input Settings (Required)")
    calc_lts_input_args.add_argument(
        '--donor_name', required=True,
        help="Name of the donor dye. Should be in the enspara dye library.")
    calc_lts_input_args.add_argument(
        '--donor_centers', required=True,
        help="Path to cluster centers from the MSM"
             "should be of type .xtc.")
    calc_lts_input_args.add_argument(
        '--donor_top', required=True,
        help="topology file for supplied trajectory.")
    calc_lts_input_args.add_argument(
        '--donor_tcounts', required=True,
        help='t_counts for the donor dye MSM.')
    calc_lts_input_args.add_argument(
        '--acceptor_name', required=True,
        help='Name of the acceptor dye. Should be in the enspara dye library.')
    calc_lts_input_args.add_argument(
        '--acceptor_centers', required=True,
        help="Path to cluster centers from the MSM"
             "should be of type .xtc.")
    calc_lts_input_args.add_argument(
        '--acceptor_top', required=True,
        help="topology file for supplied trajectory.")
    calc_lts_input_args.add_argument(
        '--acceptor_tcounts', required=True,
        help='t_counts for the acceptor dye MSM.')
    calc_lts_input_args.add_argument(
        '--dye_lagtime', type=float, required=True,
        help="Lagtime for dye MSMs, in ns. "
        "Enspara dye MSMs were built with a lagtime of 0.002 ns.")
    calc_lts_input_args.add_argument(
        '--prot_top', required=True,
        help='Protein topology file to read protein centers.')
    calc_lts_input_args.add_argument(
        '--resid_pairs', required=True,
        help="Path to whitespace delimited file that is a list of residues to label. Pass in "
             "pairs of residues with the same numbering as in the topology file. "
             "Pass multiple lines to model multiple residue pairs.")

    # Optional PARAMETERS
    calc_lts_param_args = calc_lifetimes_parser.add_argument_group("Parameters (Optional)")
    calc_lts_param_args.add_argument(
        '--prot_centers', required=False,
        help="Path to protein MSM cluster centers. "
        "Should be trajectory file readable by mdtraj. "
        "If not provided, will just label the protein topology file. "
        "Running burst with a single protein center is not supported though, since there are no"
        "conformations to average over. Calculate FRET directly from the lifetime outcomes.")
    calc_lts_param_args.add_argument(
        '--n_procs', required=False, type=int, default=1,
        help="Number of cores to use for parallel processing. "
             "Generally parallel over number of frames in supplied trajectory/MSM state. ")
    calc_lts_param_args.add_argument(
        '--n_samples', required=False, type=int,
        default=1000,
        help="Number of times to run dye_lifetime calculations (per center).")
    calc_lts_param_args.add_argument(
        '--save_dtrj', required=False, default=False, type=bool,
        help="Save dye trajectories and sampled states? Saves per protein center.")
    calc_lts_param_args.add_argument(
        '--save_dmsm', required=False, default=False, type=bool,
        help="Save dye MSMs with steric clash states dropped out? Saves per protein center.")    
    calc_lts_param_args.add_argument(
        '--output_dir', required=False, action=readable_dir, default='./',
        help="Location to write output to.")


    ###########################
    ### Run Burst subparser ###
    ###########################
    run_burst_parser = subparsers.add_parser('run_burst',
                                             help='calculate FRET E from MSM centers'
                                                  'using modeled dye lifetimes')

    # Calc FRET INPUTS
    burst_input_args = run_burst_parser.add_argument_group("Input Settings (Required)")
    burst_input_args.add_argument(
        '--eq_probs', required=True,
        help="Path to equilibrium probabilities from the protein MSM. "
             "Should be of file type .npy.")
    burst_input_args.add_argument(
        '--t_counts', required=True,
        help="Path to transition counts from the protein MSM. "
             "Should be of file type .npy.")
    burst_input_args.add_argument(
        '--prot_centers', required=True,
        help="Path to protein MSM cluster centers."
        "Should be trajectory file readable by mdtraj.")
    burst_input_args.add_argument(
        '--prot_top', required=True,
        help="Path to protein topology file.")
    burst_input_args.add_argument(
        '--lifetimes_dir', action=readable_dir,
        help="Path to dye-lifetimes directory / output from calc_lifetimes.")
    burst_input_args.add_argument(
        '--donor_name', type=str,  required=True,
        help="Name of donor dye. Should be a dye in the Enspara dye library.")
    burst_input_args.add_argument(
        '--acceptor_name', type=str, required=True,
        help="Name of acceptor dye. Should be a dye in the Enspara dye library.")
    burst_input_args.add_argument(
        '--lagtime', type=float, required=True,
        help="lag time used to construct the protein MSM (in ns). "
             "Should be type float. ")
    burst_input_args.add_argument(
        '--resid_pairs', required=True,
        help="Path to whitespace delimited text file that is a list of residues to label. Pass in "
             "pairs of residues with the same numbering (resSeq) as in the topology file."
             "Pass multiple lines to model multiple residue pairs. First residue is the donor"
             "and the second residue corresponds to the acceptor.")

    # Calc FRET bursts PARAMETERS
    burst_parameters = run_burst_parser.add_argument_group("Parameters (Optional)")
    burst_parameters.add_argument(
        '--n_procs', required=False, type=int, default=1,
        help="Number of cores to use for parallel processing. "
             "Generally parallel over number of labeled residues.")
    burst_parameters.add_argument(
        '--output_dir', required=False, action=readable_dir, default='./',
        help="The location to write the FRET dye distributions.")
    burst_parameters.add_argument(
        '--photon_times', required=False, 
        default=f'{os.path.dirname(enspara.__file__)}/data/dyes/interphoton_times.npy',
        help="File containing inter photon times. Each list is an individual photon burst "
             "with photon wait times (in us) for each burst. Size (n_bursts, nphotons in burst) "
             "Should be of file type .npy.")
    burst_parameters.add_argument(
        '--correction_factor', required=False, type=int, default=[10000], 
        nargs="+",
        help="Time factor by which your MSM is faster than experimental timescale. "
        "Pass multiple to rescale MSM to multiple times.")

    args = parser.parse_args(argv[1:])
    return args


def main(argv=None):
    args = process_command_line(argv)

    os.environ['NUMEXPR_MAX_THREADS'] = str(args.n_procs)
    os.environ['NUMEXPR_NUM_THREADS'] = '1'

    print("Your input was:")
    for i, arg in enumerate(argv):
        # Provide helpful output to remind users their input
        print(i, arg)
    print("", flush=True)

    os.makedirs(args.output_dir, exist_ok=True)
    resSeqs = np.loadtxt(args.resid_pairs, dtype=int).reshape(-1,2)

    # Process the input
    if args.command == 'calc_lifetimes':
        #Load in initial stuff
        print('Loading dye MSMs.', flush=True)
        d_centers = md.load(args.donor_centers, top=args.donor_top)
        a_centers = md.load(args.acceptor_centers, top=args.acceptor_top)
        d_tcounts = np.load(args.donor_tcounts, allow_pickle=True)
        a_tcounts = np.load(args.acceptor_tcounts, allow_pickle=True)

        print('Loading protein centers.', flush=True)
        if args.prot_centers == None:
            prot_traj = md.load(args.prot_top)
        else:
            prot_traj = md.load(args.prot_centers, top=args.prot_top)

        for resSeq in resSeqs:
            func = partial(dye_lifetimes.calc_lifetimes, d_centers=d_centers, d_tcounts=d_tcounts,
            a_centers=a_centers, a_tcounts=a_tcounts, resSeqs=resSeq, 
            dyenames=[args.donor_name, args.acceptor_name],
            dye_lagtime=args.dye_lagtime, n_samples=args.n_samples, outdir=args.output_dir, 
            save_dye_trj=args.save_dtrj, save_dye_msm=args.save_dmsm)

            print(f'Starting pool for resSeq {resSeq}.', flush=True)

            procs = min([len(prot_traj), args.n_procs])

            with get_context("spawn").Pool(processes = procs) as pool:

                lifetime_events = pool.map(func, zip(prot_traj, np.arange(len(prot_traj))))
                pool.terminate()

            lifetime_events = np.array(lifetime_events, dtype='O')
            print(f'Saving lifetimes and outcomes here: {args.output_dir}')
            np.save(f'{args.output_dir}/events-{resSeq[0]}-{resSeq[1]}.npy', lifetime_events)


    elif args.command == 'run_burst':
   		#Load in initial files
        prot_traj=md.load(args.prot_top)
        prot_tcounts = np.load(args.t_counts, allow_pickle=True)
        prot_eqs = np.load(args.eq_probs)
        interphoton_times = np.load(args.photon_times, allow_pickle=True)

        #Make output dirs
        os.makedirs(f'{args.output_dir}/MSMs', exist_ok=True)

        #Choose a sensible number of processes to start for pool.
        procs = min([len(resSeqs),args.n_procs])

        print('Remaking dye MSMs to account for protein states with no available dyes.', flush=True)

        #Remake dye MSM for each dye pair
        func = partial(dye_lifetimes.remake_msms, prot_tcounts=prot_tcounts, dye_dir=args.lifetimes_dir,
            dyenames=[args.donor_name, args.acceptor_name],orig_eqs=prot_eqs, outdir = args.output_dir)
        with get_context("spawn").Pool(processes=procs) as pool:
            run = pool.map(func, resSeqs)
            pool.terminate()

        #Run burst MC for each correction factor
        for time_correction in args.correction_factor:
            # Convert Photon arrival times into MSM steps.
            MSM_frames = dyefs.convert_photon_times(interphoton_times, args.lagtime, time_correction)

            func = partial(dye_lifetimes.run_mc, prot_tcounts=prot_tcounts, 
               dyenames=[args.donor_name, args.acceptor_name], 
                dye_dir=args.lifetimes_dir,  MSM_frames=MSM_frames, 
                outdir=args.output_dir, time_correction=time_correction)

            with get_context("spawn").Pool(processes=procs) as pool:
                run = pool.map(func, resSeqs)
                pool.terminate()

if __name__ == "__main__":
    sys.exit(main(sys.argv))

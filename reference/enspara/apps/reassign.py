"""Given cluster centers, reassign trajectories in batches.

Options are provided for modifying what fraction of memory will be used
and which atoms to use for reassignment.
"""

import os
import sys
import argparse
import logging
import pickle
import time
import resource

from functools import partial

import psutil

import numpy as np
import mdtraj as md

from joblib import Parallel, delayed

logging.basicConfig(
    level=logging.INFO,
    format=('%(asctime)s %(name)-8s %(levelname)-7s %(message)s'),
    datefmt='%m-%d-%Y %H:%M:%S')

import enspara

from enspara.cluster.util import assign_to_nearest_center, partition_list
from enspara.util.load import (concatenate_trjs, sound_trajectory,
                               load_as_concatenated)

from enspara.cluster.util import *
from enspara import ra
from enspara.util.log import timed


logger = logging.getLogger(__name__)
logger.setLevel(logging.INFO)


def process_command_line(argv):

    parser = argparse.ArgumentParser(formatter_class=argparse.
                                     ArgumentDefaultsHelpFormatter)

    parser.add_argument(
        '--centers', required=True,
        help="Center structures (as a pickle) to use for reassignment.")
    parser.add_argument(
        '--trajectories', required=True, nargs="+", action='append',
        help="The aligned xtc files to cluster.")
    parser.add_argument(
        '--topology', required=True, action='append', dest='topologies',
        help="The topology file for the trajectories.")
    parser.add_argument(
        '--atoms', default="(name CA or name C or name N or name CB)",
        help="The atoms from the trajectories (using MDTraj atom-selection"
             "syntax) to cluster based upon.")
    parser.add_argument(
        '--output-path', default=None,
        help="Output path for results (distances, assignments). "
             "Default is in the same directory as the input centers.")
    parser.add_argument(
        '-m', '--mem-fraction', default=0.5, type=float,
        help="The fraction of total RAM to use in deciding the batch size. "
             "Genrally, this number shouldn't be much higher than 0.5.")

    # OUTPUT ARGS
    parser.add_argument(
        '--distances', required=True,
        help="Path to h5 file where distance to nearest cluster center "
             "will be output.")
    parser.add_argument(
        '--assignments', required=True,
        help="Path to h5 file where assignments to nearest center will "
             "be ouput")

    args = parser.parse_args(argv[1:])

    if args.mem_fraction >= 1 or args.mem_fraction <= 0:
        raise enspara.exception.ImproperlyConfigured(
            "Flag --mem-fraction must be in range (0, 1). Got %s"
            % args.mem_fraction)

    if len(args.topologies) != len(args.trajectories):
        raise enspara.exception.ImproperlyConfigured(
            "The number of --topology and --trajectory flags must agree.")

    if args.output_path is None:
        args.output_path = os.path.dirname(args.centers)

    for trjset in args.trajectories:
        for trj in trjset:
            f = open(trj, 'r')
            f.close()

    return args


def main(argv=None):

    args = process_command_line(argv)

    tick = time.perf_counter()

    with open(args.centers, 'rb') as f:
        centers = concatenate_trjs(
            pickle.load(f), args.atoms,
            enspara.util.parallel.auto_nprocs())
    logger.info('Loaded %s centers with %s atoms using selection "%s" '
                'in %.1f seconds.',
                len(centers), centers.n_atoms, args.atoms,
                time.perf_counter() - tick)

    assig, dist = reassign(
        args.topologies, args.trajectories, [args.atoms]*len(args.topologies),
        centers=centers, frac_mem=args.mem_fraction)

    mem_highwater = resource.getrusage(resource.RUSAGE_SELF).ru_maxrss
    logger.info(
        "Finished reassignments in %.1f seconds. Process memory high-water "
        "mark was %.2f GB (VRAM size is %.2f GB).",
        time.perf_counter() - tick,
        (mem_highwater / 1024**2),
        psutil.virtual_memory().total / 1024**3)

    ra.save(args.distances, dist)
    ra.save(args.assignments, assig)

    logger.info("Wrote distances at %s.", args.distances)
    logger.info("Wrote assignments at %s.", args.assignments)

    return 0

if __name__ == "__main__":
    sys.exit(main(sys.argv))

import sys
import argparse


def identify_app(argv):

    parser = argparse.ArgumentParser(
        prog='enspara',
        formatter_class=argparse.ArgumentDefaultsHelpFormatter,
        description="Main entry point for enspara apps.")

    parser.add_argument(
        "appname",
        choices={'cluster', 'implied', 'reassign'},
        help="Name of the application.")

    parser.add_argument(
        "appargs", nargs="*",
        help="Subsequent arguments to the app (add subcommand for more).")

    helpstack = []
    for h in ['--help', '-h']:
        while h in argv and argv.index(h) != 1:
            argv.remove(h)
            helpstack.append(h)

    args = parser.parse_args(argv[1:])

    if args.appname == 'cluster':
        from enspara.apps.cluster import main
    elif args.appname == 'implied':
        from enspara.apps.implied_timescales import main
    elif args.appname == 'reassign':
        from enspara.apps.reassign import main

    args.main = main
    args.appargs.extend(helpstack)

    return args


def main(argv=None):

    args = identify_app(argv)

    try:
        args.main(args.appargs)
    except Exception as e:
        message = ("An unexpected error has occurred; please consider filing "
                   "an issue at our issue tracker:\n"
                   "https://github.com/bowman-lab/enspara/issues")
        print(message, file=sys.stderr)
        raise

    return 0


if __name__ == "__main__":
    sys.exit(main(sys.argv))

"""Applications that can be run on the command line.
"""

from . import implied_timescales
from . import cluster

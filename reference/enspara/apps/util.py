import argparse
import os


class readable_dir(argparse.Action):
    """Argparse action that determines if the option given points to a
    directory that exists and its writable.
    """
    def __call__(self, parser, namespace, values, option_string=None):
        prospective_dir = os.path.dirname(os.path.abspath(values))
        if not os.path.isdir(prospective_dir):
            raise argparse.ArgumentTypeError(
                "readable_dir:{0} is not a valid path".format(prospective_dir))
        if os.access(prospective_dir, os.R_OK):
            setattr(namespace, self.dest, values)
        else:
            raise argparse.ArgumentTypeError(
                "readable_dir:{0} is not a readable dir".format(
                    prospective_dir))

"""Given assignments and a list of lagtimes, plot implied timescales.

Options are provided for using various forms of MSM and parallelization.
"""

import sys
import argparse

import numpy as np
import mdtraj as md

from tables.exceptions import NoSuchNodeError

from enspara import exception
from enspara.msm import implied_timescales, builders
from enspara import ra


def process_command_line(argv):

    parser = argparse.ArgumentParser(
        prog='implied',
        formatter_class=argparse.ArgumentDefaultsHelpFormatter)

    parser.add_argument(
        "--assignments", required=True,
        help="File containing assignments to states.")
    parser.add_argument(
        "--n-eigenvalues", default=5, type=int,
        help="Number of eigenvalues to compute for each lag time.")
    parser.add_argument(
        "--lag-times", default="5:100:2",
        help="List of lagtimes (in frames) to compute eigenspectra for. "
             "Format is min:max:step.")
    parser.add_argument(
        "--symmetrization", default="transpose",
        choices=['transpose', 'row_normalize', 'prior_counts'],
        help="The method to use to fit transition probabilities from "
             "the transition counts matrix.")
    parser.add_argument(
        "--trj-ids", default=None,
        help="Computed the implied timescales for only the given "
             "trajectory ids. This is useful for handling assignments "
             "for shared state space clusterings.")
    parser.add_argument(
        "--trim", default=False, action="store_true",
        help="Turn ergodic trimming on.")

    parser.add_argument(
        "--timestep", default=None, type=float,
        help='A conversion between frames and nanoseconds (i.e. frames '
             'per nanosecond) to scale the axes to physical units '
             '(rather than frames).')
    parser.add_argument(
        "--infer-timestep", default=None,
        help="An example trajectory from which to infer the conversion "
             "from frame to nanoseconds.")

    parser.add_argument(
        "--plot", default=None,
        help="Path for the implied timescales plot.")
    parser.add_argument(
        "--logscale", action='store_true',
        help="Flag to output y-axis log scale plot.")

    args = parser.parse_args(argv[1:])

    args.lag_times = range(*map(int, args.lag_times.split(':')))

    if args.trj_ids is not None:
        args.trj_ids = slice(*map(int, args.trj_ids.split(':')))

    if args.symmetrization == 'prior_counts':
        args.symmetrization = prior_counts
    else:
        args.symmetrization = getattr(builders, args.symmetrization)

    return args


def prior_counts(C):
    return builders.normalize(C, prior_counts=1/C.shape[0])


def process_units(timestep=None, infer_timestep=None):
    """Take the timestep parameter and infer_timestep parameters from
    the command line arguments and convert it to the string indicating
    units (ns) and the factor converting ns to frames.

    Parameters
    ----------
    timestep : float
        Ratio of ns to frames. This is typically 10 (for 100 ps
        timesteps) or 100 (for 10 ps timesteps).
    infer_timestep : str, path
        Path to a trajectory containing timestep information to infer
        the correct timestep from when plotting implied timescales.
    """

    if timestep and infer_timestep:
        raise exception.ImproperlyConfigured(
            'Only one of --timestep and --infer-timestep can be '
            'supplied, you supplied both --timestep=%s and '
            '--infer-timestep=%s' % (timestep, infer_timestep))

    if timestep:
        unit_factor = timestep
        unit_str = 'ns'
    elif infer_timestep:
        try:
            timestep = md.load(infer_timestep).timestep
        except (ValueError, OSError):
            if infer_timestep[-4:] != '.xtc':
                raise exception.ImproperlyConfigured(
                    "Topologyless formats other than XTC are not supported.")
            with md.formats.xtc.XTCTrajectoryFile(infer_timestep) as f:
                xyz, time, step, box = f.read(n_frames=10)
                timesteps = time[1:] - time[0:-1]
                assert np.all(timesteps[0] == timesteps)
                timestep = timesteps[0]
        unit_factor = 1000 / timestep  # units are ps
        unit_str = 'ns'
    else:
        unit_factor = 1
        unit_str = 'frames'

    return unit_factor, unit_str


def main(argv=None):

    args = process_command_line(argv)

    try:
        assignments = ra.load(args.assignments, keys=None)
    except NoSuchNodeError:
        assignments = ra.load(args.assignments, keys=...)
    if args.trj_ids is not None:
        assignments = assignments[args.trj_ids]

    tscales = implied_timescales(
        assignments, args.lag_times, n_times=args.n_eigenvalues,
        sliding_window=True, trim=args.trim,
        method=args.symmetrization)

    import matplotlib as mpl
    mpl.use('Agg')
    from matplotlib import pyplot as plt

    unit_factor, unit_str = process_units(args.timestep, args.infer_timestep)

    # scale x and y axes to nanoseconds
    lag_times = np.array(args.lag_times) / unit_factor
    tscales /= unit_factor

    for i in range(args.n_eigenvalues):
        plt.plot(lag_times, tscales[:, i] / unit_factor,
                 label=r'$\lambda_{i}$'.format(i=i+1))

    if args.logscale:
        plt.yscale('log')

    plt.ylabel('Eigenmotion Speed [{u}]'.format(u=unit_str))
    plt.xlabel('Lag Time [{u}]'.format(u=unit_str))
    plt.legend(frameon=False)

    plt.savefig(args.plot, dpi=300)

    return 0

if __name__ == "__main__":
    sys.exit(main(sys.argv))

"""The smFRET app allows you to convert your MSM into a single-molecule
FRET histogram based on the residue pairs of interest. Users specify
MSM structure centers and the transition probabilities between each center.
Parameters such as the dye identities can be changed if you have your own point clouds.
Dyes may be mapped to any amino acid in the protein. As single-molecule FRET is 
highly dependent on true-to-experiment simulation timescales, you can also rescale the 
speed of your trajectories within an MSM. This code also enables adaptation to specific
smFRET experimental setups as users provide their own experimental FRET bursts. 
See the apps tab for more information.
"""
# Author: Maxwell I. Zimmerman <mizimmer@wustl.edu>
# Contributors: Justin J Miller <jjmiller@wustl.edu>
# Contributors: Louis Smith <louissmith@wustl.edu>


import sys
import argparse
import logging
import os
import inspect
import re
from enspara import ra
import mdtraj as md
from enspara.geometry import dyes_from_expt_dist
from enspara.apps.util import readable_dir
import glob
from scipy.stats import entropy

import numpy as np

logger = logging.getLogger(__name__)
logger.setLevel(logging.INFO)


def process_command_line(argv):
    parser = argparse.ArgumentParser(
        prog='smFRET',
        formatter_class=argparse.ArgumentDefaultsHelpFormatter,
        description="Convert an MSM and a series of FRET dye residue pairs into"
                    "the predicted FRET efficiency for each pair and fit to expt time"
                    "Multi-step process- model dyes, calc FRET efficiency, fit time factor")

    subparsers = parser.add_subparsers(title='commands', dest='command',
                                       description='valid subcommands',
                                       help='Call a subparser!')

    ############################
    ### Model_dyes subparser ###
    ############################
    model_dyes_parser = subparsers.add_parser('model_dyes', help='model FRET dyes onto MSM centers')

    # Model dyes INPUTS
    model_input_args = model_dyes_parser.add_argument_group("Input Settings")
    model_input_args.add_argument(
        'centers',
        help="Path to cluster centers from the MSM"
             "should be of type .xtc.")
    model_input_args.add_argument(
        'topology',
        help="topology file for supplied trajectory")
    model_input_args.add_argument(
        'resid_pairs',
        help="Path to whitespace delimited file that is a list of residues to label. Pass in "
             "pairs of residues with the same numbering as in the topology file."
             "Pass multiple lines to model multiple residue pairs")

    # Model Dyes PARAMETERS
    model_parameter_args = model_dyes_parser.add_argument_group("Parameters")
    model_parameter_args.add_argument(
        '--n_procs', required=False, type=int, default=1,
        help="Number of cores to use for parallel processing"
             "Generally parallel over number of frames in supplied trajectory/MSM state")
    model_parameter_args.add_argument(
        '--FRETdye1', required=False,
        default=os.path.dirname(inspect.getfile(ra)) + '/../data/dyes/point-clouds/AF488.pdb',
        help="Path to point cloud of FRET dye pair 2")
    model_parameter_args.add_argument(
        '--FRETdye2', required=False,
        default=os.path.dirname(inspect.getfile(ra)) + '/../data/dyes/point-clouds/AF594.pdb',
        help="Path to point cloud of FRET dye pair 2")
    model_parameter_args.add_argument(
        '--output_dir', required=False, action=readable_dir, default='./',
        help="The location to write the FRET dye distributions.")


    ###########################
    ### Calc_FRET subparser ###
    ###########################
    calc_fret_parser = subparsers.add_parser('calc_FRET',
                                             help='calculate FRET E from MSM centers'
                                                  'using modeled dye distance distribution')

    # Calc FRET INPUTS
    fret_input_args = calc_fret_parser.add_argument_group("Input Settings")
    fret_input_args.add_argument(
        'eq_probs',
        help="equilibrium probabilities from the MSM. "
             "Should be of file type .npy")
    fret_input_args.add_argument(
        't_probs',
        help="transition probabilities from the MSM. "
             "Should be of file type .npy")
    fret_input_args.add_argument(
        'lagtime', type=float,
        help="lag time used to construct the MSM (in ns) "
             "Should be type float")
    fret_input_args.add_argument(
        'FRET_dye_dists', action=readable_dir,
        help="Path to FRET dye distributions (output of model_dyes)")
    fret_input_args.add_argument(
        'resid_pairs',
        help="Path to whitespace delimited file that is a list of residues to label. Pass in "
             "pairs of residues with the same numbering as in the topology file."
             "Pass multiple lines to model multiple residue pairs")

    # Calc FRET PARAMETERS
    fret_parameters = calc_fret_parser.add_argument_group("Parameters")
    fret_parameters.add_argument(
        '--n_procs', required=False, type=int, default=1,
        help="Number of cores to use for parallel processing. "
             "Generally parallel over number of frames in supplied trajectory/MSM state")
    fret_parameters.add_argument(
        '--photon_times',
        default=os.path.dirname(inspect.getfile(ra)) + '/../data/dyes/interphoton_times.npy',
        help="File containing inter photon times. Each list is an individual photon burst "
             "with photon wait times (in us) for each burst. Size (n_bursts, nphotons in burst) "
             "Should be of file type .npy")
    fret_parameters.add_argument(
        '--n_chunks', required=False, type=int, default=2,
        help="Enables you to assess intraburst variation. "
             "How many chunks would you like a given burst broken into?")
    fret_parameters.add_argument(
        '--R0', required=False, type=float, default=5.4,
        help="R0 value for FRET dye pair of interest")
    fret_parameters.add_argument(
        '--time_factor', required=False, type=int, default=1,
        help="factor to slow your trajectories by")
    fret_parameters.add_argument(
        '--output_dir', required=False, action=readable_dir, default='./',
        help="The location to write the FRET dye distributions.")
    fret_parameters.add_argument(
        '--save_burst_frames', required=False, default=False,type=bool,choices=[True,False],
        help='Save a npy file of the frames that make up each burst and the efficiency? T/F')


    ##########################
    ### Fit_FRET subparser ###
    ##########################
    fit_fret_parser = subparsers.add_parser('fit_FRET', help='model FRET dyes onto MSM centers')

    # Fit FRET INPUTS
    fit_FRET_input_args = fit_fret_parser.add_argument_group("Input Settings")

    fit_FRET_input_args.add_argument(
        'fit_conf_file',
        help="Whitespace delimited configuration file for Fit_FRET"
             "Col 1: path to experimental histograms, Col 2: path to output of calc_fret"
             "Repeat for each dye pair in residue file")
    fit_FRET_input_args.add_argument(
        'resid_pairs',
        help="Path to whitespace delimited file that is a list of residues to label. Pass in "
             "pairs of residues with the same numbering as in the topology file."
             "Pass multiple lines to model multiple residue pairs")        

    # Fit FRET PARAMETERS
    fit_FRET_parameters = fit_fret_parser.add_argument_group("Parameters")
    fit_FRET_parameters.add_argument(
        '--method', required=False,
        default='2_3_4_moments',
        choices=['4_moments', '2_3_4_moments', 'sum_sq_residuals', 'entropy'],
        help="Method to use to fit to experimental histogram")
    fit_FRET_parameters.add_argument(
        '--Global_fit', required=False,
        default=False,
        choices=['True', 'False'],
        help="Return the minimum for a global fit?"
             "Won't work if you have different times calculated for each dye pair")
    fit_FRET_parameters.add_argument(
        '--output_dir', required=False, action=readable_dir, default='./',
        help="The location to write the residuals.")


    args = parser.parse_args(argv[1:])
    return args


def main(argv=None):
    args = process_command_line(argv)

    print("Your input was:")
    for i, arg in enumerate(argv):
        # Provide helpful output to remind users their input
        print(i, arg)
    print("", flush=True)

        # Make an output directory
    if args.output_dir != './':
        os.makedirs(args.output_dir, exist_ok=True)

    # Process the input
    if args.command == 'model_dyes':
        # Load Centers and dyes
        trj = md.load(args.centers, top=args.topology)
        logger.info(f"Loaded trajectory {args.centers} using topology file {args.topology}")
        dye1 = dyes_from_expt_dist.load_dye(args.FRETdye1)
        dye2 = dyes_from_expt_dist.load_dye(args.FRETdye2)

        resSeq_pairs = np.loadtxt(args.resid_pairs, dtype=int).reshape(-1,2)

        logger.info(f"Calculating dye distance distribution using dyes: {args.FRETdye1}")
        logger.info(f"and {args.FRETdye2}")
        # Calculate the FRET dye distance distributions for each residue pair
        for n in np.arange(len(resSeq_pairs)):
            logger.info(f"Calculating distance distribution for residue pair: {resSeq_pairs[n]}")
            probs, bin_edges = dyes_from_expt_dist.dye_distance_distribution(
                trj, dye1, dye2, resSeq_pairs[n], n_procs=args.n_procs)
            probs_output = f'{args.output_dir}/probs_{resSeq_pairs[n][0]}_{resSeq_pairs[n][1]}.h5'
            bin_edges_output = f'{args.output_dir}/bin_edges_{resSeq_pairs[n][0]}_{resSeq_pairs[n][1]}.h5'
            ra.save(probs_output, probs)
            ra.save(bin_edges_output, bin_edges)
        logger.info(f"Success! FRET dye distance distributions may be found here: {args.output_dir}")

    elif args.command == 'calc_FRET':
        # Load necessary data
        t_probabilities = np.load(args.t_probs)
        logger.info(f"Loaded t_probs from {args.t_probs}")
        populations = np.load(args.eq_probs)
        logger.info(f"Loaded eq_probs from {args.eq_probs}")
        resSeq_pairs = np.loadtxt(args.resid_pairs, dtype=int).reshape(-1,2)

        cumulative_times = np.load(args.photon_times, allow_pickle=True)

        # Convert Photon arrival times into MSM steps.
        MSM_frames = dyes_from_expt_dist.convert_photon_times(cumulative_times, args.lagtime, args.time_factor)

        logger.info(f"Using r0 of {args.R0}")
        logger.info(f"Using time factor of {args.time_factor}")
        # Calculate the FRET efficiencies
        for n in np.arange(resSeq_pairs.shape[0]):
            logger.info(f"Calculating FRET Efficiencies for residues {resSeq_pairs[n]}")

            title = f'{resSeq_pairs[n, 0]}_{resSeq_pairs[n, 1]}'
            probs_file = f"{args.FRET_dye_dists}/probs_{title}.h5"
            bin_edges_file = f"{args.FRET_dye_dists}/bin_edges_{title}.h5"

            logger.info(f"Loading probs file from {probs_file}")
            probs = ra.load(probs_file)
            logger.info(f"Loading bins file from {bin_edges_file}")
            bin_edges = ra.load(bin_edges_file)
            dist_distribution = dyes_from_expt_dist.make_distribution(probs, bin_edges)
            FEs_sampling, trajs = dyes_from_expt_dist.sample_FRET_histograms(
                T=t_probabilities, populations=populations, dist_distribution=dist_distribution,
                MSM_frames=MSM_frames, R0=args.R0, n_procs=args.n_procs, n_photon_std=args.n_chunks)
            np.save(f"{args.output_dir}/FRET_E_{title}_time_factor_{args.time_factor}.npy", FEs_sampling)

            if args.save_burst_frames==True:
                np.save(f'{args.output_dir}/syn-trjs-{title}.npy', trajs)

        logger.info(f"Success! Your FRET data can be found here: {args.output_dir}")

    elif args.command == 'fit_FRET':
        # Process the conf file
        conf_file=np.loadtxt(args.fit_conf_file, dtype=str)
        expt_histogram_paths = conf_file[:, 0]
        predicted_histogram_paths = conf_file[:, 1]

        labelpairs = np.loadtxt(args.resid_pairs, dtype=int).reshape(-1,2)

        # Initialize a storage array
        difference_array = []

        # Iteratively calculate the difference between expt and prediction.
        for i, label_pair in enumerate(labelpairs):
            print(f'Calculating differences for {label_pair} using {args.method}.')

            # Find all predicted histograms
            #works regardless of label pair ordering so long as user is consistent in labeling pattern.
            FRET_histos = sorted(glob.glob(f'{predicted_histogram_paths[i]}/*{label_pair[0]}*{label_pair[1]}*.npy'))
            if len(FRET_histos) == 0:
                FRET_histos = sorted(glob.glob(f'{predicted_histogram_paths[i]}/*{label_pair[1]}*{label_pair[0]}*.npy'))

            # Split the filename to find the time_scale. Works if timescale is the last item before the file extension
            try:
                intermediate_timescales = [re.split("[. _]", FRET_histos[i]) for i in range(len(FRET_histos))]
                time_scales = [int(file[-2]) for file in intermediate_timescales]
            except ValueError:
                print(f"Tried to find timescales for {label_pair} using last value before file extension,")
                print("at least one of the files read doesn't follow this pattern")
                print(f"Read files were:")
                for file in FRET_histos:
                    print(file)

            # Load the predicted FRET histograms
            predicted_FRET_histos = np.array([np.load(f"{FRET_histos[n]}")
                                              for n in range(len(time_scales))], dtype='O')

            expt_counts = np.loadtxt(f"{expt_histogram_paths[i]}")
            
            if args.method == 'sum_sq_residuals':
                # Can directly calculate this using histogrammed experimental
                # Histogram the predicted FRET efficiencies according to experimental bins
                expt_probs = expt_counts[:, 1] / np.sum(expt_counts[:, 1])
                predicted_histos = dyes_from_expt_dist.histogram_to_match_expt(predicted_FRET_histos[:, :, 0], expt_counts)
                difference_array.append(dyes_from_expt_dist.Sum_sq_resid(expt_probs, predicted_histos))
            elif args.method == 'entropy':
                # Can directly calculate this using histogrammed experimental
                # Histogram the predicted FRET efficiencies according to experimental bins
                expt_probs = expt_counts[:, 1] / np.sum(expt_counts[:, 1])
                predicted_histos = dyes_from_expt_dist.histogram_to_match_expt(predicted_FRET_histos[:, :, 0], expt_counts)
                ent = [entropy(predicted_histos[i], expt_probs) for i in range(len(predicted_histos))]
                difference_array.append(ent)
            elif args.method == '4_moments':
                #Easiest to calculate this using raw data. Regenerate experimental data
                expt_probs = dyes_from_expt_dist.remake_data_from_hist(expt_counts)
                expt_moments = dyes_from_expt_dist.calc_4_moments(expt_probs)
                pred_moments = dyes_from_expt_dist.calc_4_moments(predicted_FRET_histos[:,0])
                diff = dyes_from_expt_dist.normalize_array((expt_moments - pred_moments) ** 2)
                difference_array.append(np.sum(diff, axis=0))
            elif args.method == '2_3_4_moments':
                #Easiest to calculate this using raw data. Regenerate experimental data
                expt_probs = dyes_from_expt_dist.remake_data_from_hist(expt_counts)
                expt_moments = dyes_from_expt_dist.calc_2_3_4_moments(expt_probs)
                pred_moments = dyes_from_expt_dist.calc_2_3_4_moments(predicted_FRET_histos[:,0])
                diff = dyes_from_expt_dist.normalize_array((expt_moments - pred_moments) ** 2)
                difference_array.append(np.sum(diff, axis=0))
            print(
                f"Minimum difference between experiment and prediction for {label_pair}"
                f" is at time factor: {time_scales[np.argmin(difference_array[i])]}.")
            output_array = np.vstack((np.array(time_scales,dtype='O'), difference_array[i])).T
            np.save(f'{args.output_dir}/{label_pair}_{args.method}.npy', output_array)
            print("")
        if args.Global_fit == 'True':
            # Calculate Global Minimums
            print("----Global Minimization----")
            difference_array = np.array(difference_array)
            abs_diff = np.sum(difference_array, axis=0)
            normd_diff = np.sum(dyes_from_expt_dist.normalize_array(difference_array), axis=0)
            print(
                f"Minimum across all dye pairs, normalizing dye-pair differences"
                f" is at time factor: {time_scales[np.argmin(normd_diff)]}.")
            print(
                f"Minimum across all dye pairs, no normalizing across dye-pairs"
                f" is at time factor: {time_scales[np.argmin(abs_diff)]}.")


if __name__ == "__main__":
    sys.exit(main(sys.argv))

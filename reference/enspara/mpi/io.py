import logging

import numpy as np
import tables

from enspara import ra
from ..util.load import load_as_concatenated
from .. import exception

from .. import mpi
from .ops import assemble_striped_array

logger = logging.getLogger(__name__)


def load_h5_as_striped(filename, stride=1):
    """Load HDF5 files into distributed arrays across nodes in an MPI swarm.

    Table i is loaded by node i % n, where n is the number of nodes in
    the swarm.

    Parameters
    ----------
    filenames : list
        A list of relative paths to the trajectory files to be loaded.
        The md.load function is used, and all file types md.load
        supports are supported by this function.
    stride : int, default=1
        Load only every stride-th frame.

    Returns
    -------
    (global_lengths, xyz) : tuple
       A 2-tuple of trajectory lengths (list of ints, frames) and
       coordinates (ndarray, shape=(n_atoms, n_frames, 3)).

    See also
    --------
    enspara.mpi.io.load_trajectory_as_striped, enspara.ra.load
    """

    if mpi.rank() == 0:
        with tables.open_file(filename) as handle:
            all_keys = [k.name for k in handle.list_nodes('/')]
            all_shapes = [handle.get_node(where='/', name=k).shape
                          for k in all_keys]

    if mpi.size() >= 1:
        all_keys = mpi.comm.bcast(all_keys if mpi.rank() == 0 else None,
                                  root=0)
        all_shapes = mpi.comm.bcast(all_shapes if mpi.rank() == 0 else None,
                                    root=0)
    global_lengths = [(s[0] + stride - 1) // stride for s in all_shapes]

    if len(all_keys) == 2 and 'array' in all_keys and 'lengths' in all_keys:
        raise NotImplementedError(
            'Parallel loading of RaggedArrays that have been stored as '
            'arrays and lengths cannot be loaded in parallel.')

    local_keys = all_keys[mpi.rank()::mpi.size()]
    if len(local_keys) > 0:
        local_data = ra.load(filename, keys=local_keys, stride=stride)
    else:
        # more ranks than rows: this rank owns an empty block
        with tables.open_file(filename) as handle:
            node = handle.get_node(where='/', name=all_keys[0])
            local_data = np.zeros((0,) + node.shape[1:], dtype=node.dtype)

    if hasattr(local_data, '_data'):
        local_data = local_data._data
    else:
        # we shoud only get here if at most one key is given to load
        assert len(global_lengths[mpi.rank()::mpi.size()]) <= 1
        local_data = local_data

    return global_lengths, local_data


def load_npy_as_striped(filenames, stride=1):
    """Load ndarrays into distributed arrays across nodes in an MPI swarm.

    File i is loaded by node i % n, where n is the number of nodes in
    the swarm.

    Parameters
    ----------
    filenames : list
        A list of relative paths to the trajectory files to be loaded.
        The md.load function is used, and all file types md.load
        supports are supported by this function.
    stride : int, default=1
        Load only every stride-th frame.

    Returns
    -------
    (global_lengths, xyz) : tuple
       A 2-tuple of trajectory lengths (list of ints, frames) and
       coordinates (ndarray, shape=(n_atoms, n_frames, 3)).

    See also
    --------
    enspara.mpi.io.load_trajectory_as_striped
    """

    specs = [(h.shape, h.dtype) for h in
             (np.load(f, mmap_mode='r') for f in filenames)]

    shape0, dtype = specs[0]
    for i, (s, d) in enumerate(specs):
        if s[1:] != shape0[1:]:
            raise exception.ImproperlyConfigured(
                "Subsequent dimensions of file '{}' didn't match shape "
                "of first file, '{}' ({} != {})".format(
                    filenames[0], filenames[i], shape0, s))
        if d != dtype:
            raise exception.ImproperlyConfigured(
                "Type of file '{}' didn't match type first file, '{}' "
                "({} != {})".format(
                    filenames[0], filenames[i], dtype, d))

    global_lengths = [(s[0] + stride - 1) // stride for s, d in specs]
    logger.debug("Determined global lengths to be %s", global_lengths)
    local_lengths = global_lengths[mpi.rank()::mpi.size()]

    local_data = np.empty((sum(local_lengths),) + shape0[1:],
                          dtype=dtype)
    logger.debug("Allocated array of shape %s and type %s",
                 local_data.shape, local_data.dtype)

    # TODO could be thread parallelized?
    local_filenames = filenames[mpi.rank()::mpi.size()]
    start = 0
    for i, f in enumerate(local_filenames):
        data = np.load(f, mmap_mode='r')
        end = start + len(data[::stride])
        logger.debug("Writing file %s to [%s:%s]", i, start, end)
        local_data[start:end] = data[::stride]
        start = end
    assert start == len(local_data)

    logger.debug("Loaded %s npys into an array of shape %s.",
                 len(filenames), local_data.shape)

    return global_lengths, local_data


def load_trajectory_as_striped(filenames, *args, **kwargs):
    """Load trajectories into distributed arrays across nodes in an MPI swarm.

    File i is loaded by node i % n, where n is the number of nodes in
    the swarm.

    Parameters
    ----------
    filenames : list
        A list of relative paths to the trajectory files to be loaded.
        The md.load function is used, and all file types md.load
        supports are supported by this function.
    lengths : list, optional, default=None
        List of lengths of the underlying trajectories. If None, the
        lengths will be inferred. However, this can be slow, especially
        as the number of trajectories grows large. This option provides
        a speed benefit only.
    processes : int, optional
        The number of processes to spawn for loading in parallel.
    args : list, optional
        A list of dictionaries, each of which corresponds to additional
        kwargs to be passed to each of filenames.

    Returns
    -------
    (global_lengths, xyz) : tuple
       A 2-tuple of trajectory lengths (list of ints, frames) and
       coordinates (ndarray, shape=(n_atoms, n_frames, 3)).

    See also
    --------
    enspara.util.load.load_as_concatenated, enspara.mpi.io.load_npy_as_striped
    """

    if len(filenames) < mpi.size():
        raise exception.ImproperlyConfigured(
            "To stripe files across MPI workers, at least 1 file per "
            "node must be given. MPI size is %s, number of files is %s."
            % (mpi.size(), len(filenames)))

    # if we're specifying parameters separately for each trj to load, we
    # need to stripe those across nodes also.
    if kwargs.get('args') is not None and len(kwargs['args']) > 1:
        assert len(kwargs['args']) == len(filenames)
        kwargs['args'] = kwargs['args'].copy()[mpi.rank()::mpi.size()]

    # lengths are given per file, so they are striped like the files
    if kwargs.get('lengths') is not None:
        assert len(kwargs['lengths']) == len(filenames)
        kwargs['lengths'] = list(kwargs['lengths'])[mpi.rank()::mpi.size()]

    local_lengths, my_xyz = load_as_concatenated(
        filenames=filenames[mpi.rank()::mpi.size()], *args, **kwargs)

    local_lengths = np.array(local_lengths, dtype=int)
    global_lengths = assemble_striped_array(local_lengths)

    return global_lengths, my_xyz

import logging
import numpy as np

from sklearn.utils import check_random_state

from ..exception import ImproperlyConfigured, DataInvalid
from enspara import ra
from .. import mpi
from ..cluster import util

logger = logging.getLogger(__name__)


def convert_local_indices(local_ctr_inds, global_lengths):
    """Convert indices from (rank, local_frame) to (global frame).

    In enspara's clustering code, we represent frames in the data set by
    the pairs (owner_rank, local_frame), rather than (global_frame).
    This routine converts the local indices to global indices given the
    global lengths.

    Parameters
    ----------
    local_indices : iterable of tuples
        A list of tuples of the form `(owner_rank, local_frame)`.
    global_lengths : np.ndarray
        Array of the length of each trajectory distributed across all
        the nodes.
    """

    global_indexing = np.arange(np.sum(global_lengths))
    file_origin_ra = ra.RaggedArray(global_indexing, lengths=global_lengths)

    ctr_inds = []
    for rank, local_fid in local_ctr_inds:
        global_fid = file_origin_ra[rank::mpi.size()].flatten()[local_fid]
        ctr_inds.append(global_fid)

    return ctr_inds


def assemble_striped_array(local_arr):
    """Assemble an striped array.

    By 'striped array', we mean an array that has element i on node
    i % n. This is a common strategy for spreading data across MPI
    nodes, because it is easy to compute and, in practice, often spreads
    data pretty evenly.

    Parameters
    ----------
    local_array: np.ndarray
        The array to spread across nodes.

    Returns
    -------
    global_array: np.ndarray
        Full array that is striped across all nodes.
    """

    if mpi.size() == 1:
        return local_arr

    total_dim1 = mpi.comm.allreduce(len(local_arr), op=mpi.mpi4py.SUM)
    total_shape = (total_dim1,) + local_arr.shape[1:]

    if not np.all(local_arr > 0):
        raise ImproperlyConfigured(
            ("On rank %s, a length <= 0 was found. Lengths must be "
             "strictly greater than zero.") % mpi.rank())

    global_arr = np.zeros(total_shape, dtype=local_arr.dtype) - 1

    for i in range(mpi.size()):
        global_arr[i::mpi.size()] = mpi.comm.bcast(local_arr, root=i)

    assert np.all(global_arr > 0), global_arr

    return global_arr


def assemble_striped_ragged_array(local_array, global_lengths):
    """Assemble an array that is striped according to the first dim of a
    ragged array.

    This is relevant because, unlike a regular striped array, the
    striping is complex, since the length of each row of the RA can be
    different.

    This is used e.g. to assemble assignments in clustering from data
    spread across each node.

    Parameters
    ----------
    local_array: np.ndarray
        The array to spread across nodes.
    global_lengths: np.ndarray
        Lengths for each row of the RA. The ultimate assembled RA will
        have this as it's lengths attribute.

    Returns
    -------
    global_ra: np.ndarray
        Full array that is striped across all nodes.
    """

    assert np.issubdtype(type(global_lengths[0]), np.integer)

    global_array = np.zeros(shape=(np.sum(global_lengths),)) - 1
    global_ra = ra.RaggedArray(global_array, lengths=global_lengths)

    starts = global_ra.starts
    for rank in range(mpi.size()):
        rank_array = mpi.comm.bcast(local_array, root=rank)

        # rows rank, rank + size, ... of the global array are the rows of
        # rank_array, in order. They are written through the flat data: a
        # RaggedArray keeps equal-length rows as a 2d block, which cannot
        # be slice-assigned into a global array with unequal lengths.
        pos = 0
        for row in range(rank, len(global_lengths), mpi.size()):
            n = global_lengths[row]
            global_ra._data[starts[row]:starts[row] + n] = \
                rank_array[pos:pos + n]
            pos += n
        assert pos == len(rank_array)

    assert np.all(global_ra._data) >= 0

    return global_ra._data.astype(local_array.dtype)


def striped_array_max(local_array):
    """Compute the max of an array striped across MPI nodes.

    Works by computing the local max, then using allreduce to compute
    the maximum of local maxes.
    """

    # a rank may own no data (more ranks than trajectories): -inf is the
    # identity of max
    local_max = local_array.max() if len(local_array) > 0 else -np.inf

    mpi.comm.Barrier()
    global_max = mpi.comm.allreduce(local_max, op=mpi.mpi4py.MAX)

    return global_max


def striped_array_mean(local_array):
    """Compute the mean of an array striped across MPI nodes.

    Works by computing the sum of the local array, summing local sums
    and local element counts across all nodes (via allreduce) and only
    then computing the mean.
    """

    local_sum = np.sum(local_array)
    local_len = len(local_array)

    if mpi.size() == 1:
        return local_sum / local_len

    global_sum = np.zeros(1) - 1
    global_len = np.zeros(1) - 1

    global_sum = mpi.comm.allreduce(local_sum, op=mpi.mpi4py.SUM)
    global_len = mpi.comm.allreduce(local_len, op=mpi.mpi4py.SUM)

    assert global_len >= 0
    assert global_len >= local_len

    return global_sum / global_len


def distribute_frame(data, world_index, owner_rank):
    """Distribute an element of an array to every node in an MPI swarm.

    Parameters
    ----------
    data : array-like or md.Trajectory
        Data array with frames to distribute. The frame will be taken
        from axis 0 of the input.
    world_index : int
        Position of the target frame in `data` on the node that owns it
    owner_rank : int
        Rank of the node that owns the datum that we'll broadcast.
    out : array-like or md.Trajectory
        An array or trajectory to place the new data into.

    Returns
    -------
    frame : array-like or md.Trajectory
        A single slice of `data`, of shape `data.shape[1:]`.
    """

    if owner_rank >= mpi.size():
        raise ImproperlyConfigured(
            'In MPI swarm of size %s, recieved owner rank == %s.',
            mpi.size(), owner_rank)

    if hasattr(data, 'xyz'):
        if mpi.rank() == owner_rank:
            frame = data[world_index].xyz
        else:
            frame = np.empty_like(data[0].xyz)
    else:
        if mpi.rank() == owner_rank:
            frame = data[world_index]
        else:
            frame = np.empty_like(data[0])

    mpi.comm.Bcast(frame, root=owner_rank)

    if hasattr(data, 'xyz'):
        wrapped_data = type(data)(xyz=frame, topology=data.top)
        return wrapped_data
    else:
        return frame


def randind(local_array, random_state=None):
    """Given the local fragment of an assumed-larger array, give the
    location of a randomly chosen element of the array (uniformly
    distributed).

    Parameters
    ----------
    local_array : ndarray
        An array that's striped across multiple nodes in an MPI swarm.
    random_state : int or np.RandomState
        State of the RNG to use for the randomized part of the choice.

    Returns
    -------
    owner_rank : int
        Rank of the node that owns the element that's chosen.
    local_index : int
        Index within the owner node's local array.
    """

    random_state = check_random_state(random_state)

    # First thing, we need to find out how long all the local arrays are.
    n_states = np.array(mpi.comm.allgather(len(local_array)))
    assert np.all(n_states >= 0)

    if sum(n_states) < 1:
        raise DataInvalid(
            "Random choice requires a non-empty array. Got shapes: %s" %
            n_states)

    # Then, we select a random index from amongst the total lengths
    if mpi.rank() == 0:
        # this is modeled after numpy.random.choice, but for some reason
        # our formulation here gives the samer results.
        global_index = random_state.randint(sum(n_states))
    else:
        global_index = None

    global_index = mpi.comm.bcast(global_index, root=0)

    # this computation is the same as finding global_index % mpi.size() and
    # global_index // mpi.size() iff our data are 'packed' on nodes, but not
    # otherwise.

    concat = np.concatenate([np.arange(sum(n_states))[r::mpi.size()]
                             for r in range(mpi.size())])
    a = ra.RaggedArray(
        concat,
        lengths=n_states,
        error_checking=False)

    owner_rank, local_index = ra.where(a == global_index)
    owner_rank, local_index = owner_rank[0], local_index[0]

    assert local_index >= 0

    return (owner_rank, local_index)

#def infer_cluster_center_inds(assignments,distances,n_clusters):
#    #Assumes distance will == 0
#    cluster_center_inds = [0] * n_clusters
#    local_inds = np.where(distances==0)[0]
#    assig_vals = assignments[local_inds] 
#    for i,val in enumerate(assig_vals):
#        cluster_center_inds[val] = (mpi.rank(),local_inds[i])
#
#    #Stitch together across ranks
   
    

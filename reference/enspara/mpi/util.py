import sys

from .. import mpi


class DummyComm:

    def barrier():
        pass

    def Barrier():
        pass

    def bcast(v, root=0):
        assert root == 0, "Root for DummyComm op was %s, must be 1." % root
        return v
    
    def Bcast(v, root=0):
        return DummyComm.bcast(v, root)


    def allgather(v):
        return [v]

    def allreduce(v, op):
        return v


class dummy_mpi4py:

    def MAX(*args):
        return max(*args)


def mpiabort_excepthook(type, value, traceback):
    """A replacement of sys.__excepthook__ that explicitly aborts MPI.

    This is necessary because otherwise you'll get a deadlock if only
    one rank terminates unexpectedly.

    See Also
    --------
    https://stackoverflow.com/questions/49868333/fail-fast-with-mpi4py
    """

    mpi.comm.Abort()
    sys.__excepthook__(type, value, traceback)

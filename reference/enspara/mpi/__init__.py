"""MPI-enabled functions, typically for I/O or sharing data between nodes
"""

import os

mpiexec_active = (
    os.environ.get('OMPI_COMM_WORLD_SIZE', None) is not None or
    os.environ.get('MPIEXEC_TIMEOUT')
)

try:
    from mpi4py import MPI as mpi4py
except ImportError:
    import warnings
    warnings.warn(
        "mpi4py isn't installed! If you want to use MPI-based "
        "functionality, you'll need to install mpi4py ('pip install "
        "mpi4py' and an MPI implementation (e.g. 'brew install mpich')")

    mpi4py_installed = False

    def rank(): return 0
    def size(): return 1

    from . import ops
    from . import io
    from .util import DummyComm as comm
    from .util import dummy_mpi4py as mpi4py

else:
    import sys

    mpi4py_installed = True

    comm = mpi4py.COMM_WORLD
    rank = mpi4py.COMM_WORLD.Get_rank
    size = mpi4py.COMM_WORLD.Get_size

    from . import ops
    from . import io

import logging

import numpy as np
import mdtraj as md
from sklearn.cluster import AffinityPropagation

from .mutual_info import weighted_mi
from enspara.citation import cite
from enspara import exception

logger = logging.getLogger(__name__)
logger.setLevel(logging.INFO)


@cite('exposons')
def exposons(trj, damping, weights=None, probe_radius=0.28, threshold=0.02):
    """Compute exposons for an MDTraj trajectory.

    This function is a convenience wrapper to compute exposons using other
    functions already existing in MDTraj, sklearn, and elsewhere in enspara.

    Parameters
    ----------
    trj: md.Trajectory
        The trajectory to compute exposons for. May represent a trajectory
        or, in combination with `weights`, the centers for an MSM.
    damping: float
        Damping parameter to use for affinity propagation. Goes from 0.5
        to <1.0. Empirically, values between 0.85 and 0.95 tend to work best.
    weights: ndarray, shape=(len(trj),), default=None
        Weight of each frame in the simulation for the mutual information
        calculation. Useful if `trj` represents cluster centers of an MSM
        rather than a full trajectory. If None, frames will be weighted
        equally.
    probe_radius: float, default=0.28
        Size of the solvent probe in nm for solvent accessibility
        calculations. The exposons paper used 0.28, or the radius of two
        water molecules.
    threshold: float, default=0.02
        Sidechains with greater than this amount of total SASA will count
        as exposed for the purposes of the exposed/buried dichotomy used
        in mutual information calculations.

    Returns
    -------
    sasa_mi: np.ndarray, shape=(n_res, n_res)
        Mutual information of each sidchain with each other sidechain
        computed for the purposes of clustering exposons.
    exposons: np.ndarray, shape=(n_res,)
        Assignment of residues to exposons. Residues in the same exposon
        share the same number in this array.

    Notes
    -----
    Because SASA calculations are rather expensive, this function does not
    scale well to large datasets. For large datasets, best practices are to
    split up SASA calcuations across many computers to leverage the
    independence of trajectories' SASAs.

    See Also
    --------
    enspara.info_theory.exposons.exposons_from_sasas:
        This function takes sidechain sasas and computes exposons from it,
        in the case that you don't want to recalculate SASAs every time.
    """

    if weights is None:
        weights = np.full((len(trj),), 1 / len(trj))
    else:
        weights = np.array(weights) / sum(weights)

    sasas = md.shrake_rupley(trj, probe_radius=probe_radius, mode='atom')
    sasas = condense_sidechain_sasas(sasas, trj.top)
    sasa_mi = weighted_mi(sasas > threshold, weights)

    # random state hard-coded as 0, since this was the behavior of
    # scikit-learn at the time of exposons' publication. (It also
    # makes the results deterministic.)
    c = AffinityPropagation(damping=damping, random_state=0)
    c.fit(sasa_mi)

    return exposons_from_sasas(sasas, damping, weights, threshold)


@cite('exposons')
def exposons_from_sasas(sasas, damping, weights, threshold):
    """Compute exposons for an MDTraj trajectory.

    This function is a convenience wrapper to compute exposons using other
    functions already existing in MDTraj, sklearn, and elsewhere in enspara.

    Parameters
    ----------
    sasas: np.ndarray, shape=(n_conformations, n_sidechains)
        SASAs to use in the calculations.
    damping: float
        Damping parameter to use for affinity propagation. Goes from 0.5
        to <1.0. Empirically, values between 0.85 and 0.95 tend to work best.
    weights: ndarray, shape=(len(trj),), default=None
        Weight of each frame in the simulation for the mutual information
        calculation. Useful if `trj` represents cluster centers of an MSM
        rather than a full trajectory. If None, frames will be weighted
        equally.
    threshold: float, default=0.02
        Sidechains with greater than this amount of total SASA will count
        as exposed for the purposes of the exposed/buried dichotomy used
        in mutual information calculations.

    Returns
    -------
    sasa_mi: np.ndarray, shape=(n_res, n_res)
        Mutual information of each sidchain with each other sidechain
        computed for the purposes of clustering exposons.
    exposons: np.ndarray, shape=(n_res,)
        Assignment of residues to exposons. Residues in the same exposon
        share the same number in this array.
    """

    sasa_mi = weighted_mi(sasas > threshold, weights)

    # random state hard-coded as 0, since this was the behavior of
    # scikit-learn at the time of exposons' publication. (It also
    # makes the results deterministic.)
    c = AffinityPropagation(
        damping=damping,
        affinity='precomputed',
        preference=0,
        max_iter=10000,
        random_state=0
    )
    c.fit(sasa_mi)

    return sasa_mi, c.labels_


def get_sidechain_atom_ids(top):
    """Discover the atom IDs for atoms that are in sidechains.

    Looks for atoms that are NOT named N, C, CA, O, HA, H, H1,
    H2, H3 or OXT.

    Parameters
    ----------
    top: md.Topology
        Topology object that supplies names for each atom.

    Returns
    -------
    sc_ids: list
        List of np.ndarray objects, each containing the atom ids belonging
        to each residue.
    """

    SELECTION = ('not (name N or name C or name CA or name O or '
                 'name HA or name H or name H1 or name H2 or name '
                 'H3 or name OXT)')

    sc_ids = []
    for i in range(top.n_residues):
        sstr = f'resid {i} and {SELECTION}'
        try:
            ids = top.select(sstr)
        except RecursionError:
            print("Failed with RecursionError on residue index", i, "with querystring:")
            print('"'+sstr+"'")
            import pickle

            with open('toppickle.top', 'wb') as f:
                pickle.dump(top, f)

            raise

        sc_ids.append(ids)

    return sc_ids


@cite('exposons')
def condense_sidechain_sasas(sasas, top):
    """Condense atomic SASAs into sidechain SASAs.

    Parameters
    ----------
    sasas: np.ndarray, shape=(n_confs, n_atoms)
        Array of atomic solvent accessibilities.
    top: md.Topology
        Topology object giving names for each atom. These names are used
        to infer which atoms belong to which residues' sidechains.

    Returns
    -------
    rsd_sasas: np.ndarray, shape=(n_confs, n_residues)
        Array of sidechain SASAs.
    """

    assert top.n_residues > 1

    if top.n_atoms != sasas.shape[1]:
        raise exception.DataInvalid(
            f"The number of atoms in top ({top.n_atoms}) didn't match the "
            f"number of SASAs provided ({sasas.shape[1]}). Make sure you "
            f"computed atom-level SASAs (mode='atom') and that you've passed "
            "the correct topology file and array of SASAs"
        )

    sc_ids = get_sidechain_atom_ids(top)

    rsd_sasas = np.zeros((sasas.shape[0], len(sc_ids)), dtype='float32')

    for i, aa in enumerate(sc_ids):
        if len(aa) == 0:
            logger.warn('Found 0 atoms for %s.' % top.residue(i))
            assert False
        else:
            rsd_sasas[:, i] = np.sum(sasas[:, aa], axis=1)

    return rsd_sasas

# Author: Gregory R. Bowman <gregoryrbowman@gmail.com>
# Contributors:
# Copyright (c) 2016, Washington University in St. Louis
# All rights reserved.
# Unauthorized copying of this file, via any medium is strictly prohibited
# Proprietary and confidential
import warnings

import numpy as np

from .. import exception
from ..msm import builders
from ..msm.transition_matrices import eq_probs, assigns_to_counts


def Q_from_assignments(
        assignments, n_states=None, lag_time=1, builder=builders.normalize,
        prior_counts=None):
    """Generates the reference matrix for relative entropy calculations
       from an assignments matrix.
    """

    # determine prior
    if prior_counts is None:
        total_counts = np.sum([len(ass) - 1 for ass in assignments])
        prior_counts = 1 / total_counts

    # get counts matrix
    Q_counts = assigns_to_counts(
        assignments, max_n_states=n_states, lag_time=lag_time)

    # add prior counts
    Q_counts = np.array(Q_counts.todense()) + prior_counts

    # compute transition probability matrix
    # disable warning from mle's calculation of eq_probs
    with warnings.catch_warnings():
        warnings.simplefilter("ignore")
        _, Q_prob, _ = builder(Q_counts, calculate_eq_probs=False)

    return Q_prob


def relative_entropy_per_state(
        P, Q=None, assignments=None, weights=1, state_subset=None,
        base=2.0, **kwargs):
    """The relative entropy between each state in an MSM. For each
    state, i, the relative entropy is calculated as the Kullbeck-Liebler
    divergence between conditional transition probabilities:

    D_KL(P(i)||Q(i)) =  SUM(P(i,j) * log(P(i,j) / Q(i,j)), j)

    where P is the reference probability matrix and Q is the
    probability matrix in question.

    The relative entropy is calculated between P and Q. If Q is not
    supplied, it is calculated from assignments for a particular lagtime
    and symmetrization option.

    Parameters
    ----------
    P : array, shape=(n_states, n_states)
        The reference transition probability matrix.
    Q : array, shape=(n_states, n_states), default=None
        A transition probability matrix that diverges from P.
    assignments : array, shape=(n_trajectories, n_frames), default=None
        2D array of trajectories to compute Q from. Note: if assignments
        are provided instead of a probability matrix, details for MSM
        construction are suggested. i.e. lagtime (default of 1),
        symmetrization option (default of none), and prior counts
        (default of 1/total_counts).
    populations : array, shape=(n_states,), default=None
        The equilibrium populations of the reference MSM. If not
        supplied, this is calculated from the eigenspectrum of P.
    state_subset : array, shape=(n_subset,), default=None
        Optionally specify a subset of states to use for calculation of
        relative entropy. These states will be the only ones that
        contribute to the MSMs relative entropy value. If no subset is
        specified, all states will be used.
    base : float, default=2.0
        The base used for calculation of Kullbeck-Liebler divergence.
        This specified the units of the output, i.e. base 2 will be in
        bits and base e will be in nats.
    """

    # number of state in MSM
    n_states = P.shape[0]
    if state_subset is None:
        state_subset = Ellipsis

    # check inputs
    if (Q is None) and (assignments is None):
        print('must specify Q or calculate Q from assignments')
    elif (Q is None):
        Q = Q_from_assignments(
            assignments, n_states=n_states, **kwargs)

    # obtain relative entropy matrix
    rel_entropy_mat = kl_divergence(P, Q, base=base)

    return rel_entropy_mat[state_subset]*weights


def relative_entropy_msm(
        P, Q=None, assignments=None, populations=None, state_subset=None,
        base=2.0, **kwargs):
    """The relative entropy between MSMs defined as:

    D_MSM(P||Q) = sum(Dij)

    Dij = P(i) * P(i,j) * log(P(i,j) / Q(i,j))

    where P is the reference probability matrix and Q is the
    probability matrix in question.

    The relative entropy is calculated between P and Q. If Q is not
    supplied, it is calculated from assignments for a particular lagtime
    and symmetrization option. If populations of P are not supplied,
    they are calculated.

    Parameters
    ----------
    P : array, shape=(n_states, n_states)
        The reference transition probability matrix.
    Q : array, shape=(n_states, n_states), default=None
        A transition probability matrix that diverges from P.
    assignments : array, shape=(n_trajectories, n_frames), default=None
        2D array of trajectories to compute Q from. Note: if assignments
        are provided instead of a probability matrix, details for MSM
        construction are suggested. i.e. lagtime (default of 1),
        symmetrization option (default of none), and prior counts
        (default of 1/total_counts).
    populations : array, shape=(n_states,), default=None
        The equilibrium populations of the reference MSM. If not
        supplied, this is calculated from the eigenspectrum of P.
    state_subset : array, shape=(n_subset,), default=None
        Optionally specify a subset of states to use for calculation of
        relative entropy. These states will be the only ones that
        contribute to the MSMs relative entropy value. If no subset is
        specified, all states will be used.
    base : float, default=2.0
        The base used for calculation of Kullbeck-Liebler divergence.
        This specified the units of the output, i.e. base 2 will be in
        bits and base e will be in nats.
    """

    # calculate populations of reference matix if not provided
    if state_subset is None:
        state_subset = Ellipsis
    if populations is None:
        populations = eq_probs(P)[state_subset]
        populations /= populations.sum()

    # calculate the KL divergence for each state, weighted by the
    # populations of P
    rel_entropy_mat = relative_entropy_per_state(
        P, Q=Q, assignments=assignments, weights=populations,
        state_subset=state_subset, base=base, **kwargs)

    # sum over relative entropy mat
    rel_entropy = np.sum(rel_entropy_mat)

    return rel_entropy


def energy_to_probability(u, kT=2.479):
    p = np.exp(-(u-u.mean())/kT)
    p /= p.sum()
    return p


def shannon_entropy(p, normalize=True):
    """Compute the Shannon entropy of a uni- or multi-variate
    distribution.

    Parameters
    ----------
    p : np.ndarray
        Vector or matrix of probabilities representing the (potentially
        multivariate) distribution over which to calculate the entropy.
    normalize : bool, default=True
        Forcibly normalize the sum of p to one. (Not in place;
        duplicates p.)

    Returns
    -------
    H : float
        The Shannon entropy of the distribution
    """

    if normalize:
        p = np.copy(p) / np.sum(p)

    H = -np.sum(p * np.log(p, where=(p > 0), out=np.zeros_like(p, dtype=float)))

    return H


def kl_divergence(P, Q, base=2):
    """Calculates the Kullbeck-Liebler divergence between two
    probability distributions, P and Q. If P and Q are two dimensional,
    the divergence is calculated between rows. The output is bits by
    default.

    Parameters
    ----------
    P : array, shape=(n_distributions, n_values)
        A list of reference probability distributions. i.e. each row
        should sum to one.
    Q : array, shape(n_distributions, n_values)
        A list of query probability distributions. i.e. each row should
        sum to one. Must be the same shape as P.
    base : float, default=2
        The base of the log differences between probability
        distributions. This sets the units of the output. i.e. base=2
        makes the units in bits and base=e makes the units in nats.

    Returns
    ----------
    divergence : array, shape=(n_distributions,)
        The diverences between distributions in P and Q.
    """

    # numpyify distributions
    P = np.array(P)
    Q = np.array(Q)

    # Check shape of distributions
    if P.shape != Q.shape:
        raise

    # Ensure non-negative probabilties
    for M in (P, Q):
        if len(np.where(M < 0)[0]) > 0:
            raise exception.DataInvalid(
                'The supplied matrix contained a negative probability:\n%s' %
                M)

    # calculate inners and set nans to zero (this is okay because
    # xlogx = 0 @ x=0)
    # disable numpy's warning of log(0)
    with warnings.catch_warnings():
        warnings.simplefilter("ignore", category=RuntimeWarning)
        log_likelihoods = P * np.log(P / Q)
    log_likelihoods[np.where(np.isnan(log_likelihoods))] = 0

    # determine axis to sum over
    axis_sum = 0
    if len(P.shape) > 1:
        axis_sum = 1

    # return divergence for each distribution
    divergence = np.sum(log_likelihoods, axis=axis_sum)

    # change units to base
    divergence /= np.log(base)

    return divergence


def js_divergence(p, q):
    m = 0.5*(p+q)
    js = 0.5 * kl_divergence(p, m) + 0.5*kl_divergence(q, m)
    return js

"""Information theory calculations (entropy, divergence, joint counts etc.)
"""

from . import entropy
from . import mutual_info
from . import exposons

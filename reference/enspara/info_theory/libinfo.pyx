import numpy as np
from cython.parallel import prange

cimport numpy as np
cimport cython


ctypedef fused INTEGRAL_2D_ARRAY:
    np.ndarray[np.int8_t, ndim=2]
    np.ndarray[np.int16_t, ndim=2]
    np.ndarray[np.int32_t, ndim=2]
    np.ndarray[np.int64_t, ndim=2]
    np.ndarray[np.uint8_t, ndim=2]
    np.ndarray[np.uint16_t, ndim=2]
    np.ndarray[np.uint32_t, ndim=2]
    np.ndarray[np.uint64_t, ndim=2]

ctypedef fused INTEGRAL_1D_ARRAY:
    np.ndarray[np.int8_t, ndim=1]
    np.ndarray[np.int16_t, ndim=1]
    np.ndarray[np.int32_t, ndim=1]
    np.ndarray[np.int64_t, ndim=1]
    np.ndarray[np.uint8_t, ndim=1]
    np.ndarray[np.uint16_t, ndim=1]
    np.ndarray[np.uint32_t, ndim=1]
    np.ndarray[np.uint64_t, ndim=1]


@cython.boundscheck(False)
def bincount2d(
        INTEGRAL_1D_ARRAY a, INTEGRAL_1D_ARRAY b,
        int n_a, int n_b):

    cdef np.ndarray[np.uint32_t, ndim=2] H = np.zeros((n_a, n_b),
                                                      dtype=np.uint32)
    cdef unsigned int i, j, t

    assert a.shape[0] == b.shape[0]
    assert a.max() < n_a, "States indices must be contiguous."
    assert b.max() < n_b, "States indices must be contiguous."
    assert a.min() >= 0, "States indices must be non-negative."
    assert b.min() >= 0, "States indices must be non-negative."

    for t in range(a.shape[0]):
        i = a[t]
        j = b[t]
        H[i, j] += 1

    return H


@cython.boundscheck(False)
@cython.wraparound(False)
def matrix_bincount2d(
        INTEGRAL_2D_ARRAY a, INTEGRAL_2D_ARRAY b,
        int n_a, int n_b):

    # this guy is holding our joint counts, so this will top out at
    # ~4 billion timepoints
    assert a.shape[0] < 2**32, "No support for trajectories longer than 2^32"
    assert a.shape[0] == b.shape[0], 'Feature arrays a and b must match in length'
    assert a.max() < n_a, "States indices must be contiguous."
    assert b.max() < n_b, "States indices must be contiguous."
    assert a.min() >= 0, "States indices must be non-negative."
    assert b.min() >= 0, "States indices must be non-negative."

    cdef np.ndarray[np.uint32_t, ndim=4] jc = np.zeros(
        (a.shape[1], b.shape[1], n_a, n_b), dtype=np.uint32)

    cdef long a_row, b_row, i, j, t
    cdef long n_features = a.shape[1]

    for a_row in prange(a.shape[1], nogil=True):
        for b_row in range(b.shape[1]):
            for t in range(a.shape[0]):
                i = a[t, a_row]
                j = b[t, b_row]
                jc[a_row, b_row, i, j] += 1

    return jc

"""Module for high-level computations involving mutual information.

Includes such goodies as mutual information matrix calculation, wrappers
for array of joint count matrices calculations, MI with weights, and
normalized MI.
"""

import logging
import warnings
import itertools
import numbers

import numpy as np

from .. import exception
from . import libinfo


logger = logging.getLogger(__name__)
logger.setLevel(logging.INFO)


def mi_matrix(Xs, Ys, n_x, n_y, normalize=True):
    """Compute the all-to-all matrix of mutual information across
    trajectories of assigned states.

    Parameters
    ----------
    assignments_a : array-like, shape=(n_trajectories, n_frames, n_features)
        Array of assigned/binned features
    assignments_b : array-like, shape=(n_trajectories, n_frames, n_features)
        Array of assigned/binned features
    n_states_a : int or array, shape(n_features_a,)
        Number of possible states for each feature in `states_a`. If an
        integer is given, it is assumed to apply to all features.
    n_states_b : int or array, shape=(n_features_b,)
        As `n_x`, but for `X`
    normalize : bool, default=True
        Normalize by channel capacity

    Returns
    -------
    mi : np.ndarray, shape=(n_features, n_features)
        Array where cell i, j is the mutual information between the ith
        feature of assignments_a and the jth feature of assignments_b of
        the mutual information between trajectories a and b for each
        feature.

    See Also
    --------
    channel_capacity_normalization, weighted_mi, joint_counts,
    mutual_information
    """

    jc = None
    for i, (X, Y) in enumerate(zip(Xs, Ys)):
        logger.debug("Starting joint-counts %s", i)
        jc_i = joint_counts(X, Y, np.max(n_x), np.max(n_y))

        if not hasattr(jc, 'shape'):
            # one trajectory fits the kernel's uint32 cells, their sum may not
            jc = jc_i.astype(np.uint64)
        else:
            if jc.shape != jc_i.shape:
                raise exception.DataInvalid(("Trajectory %s gave a joint "
                    "counts matrix of shape %s where %s was expected. "
                    "Are you sure all your trajectories have the same "
                    "number of features?") % (i, jc_i.shape, jc.shape))
            jc += jc_i

    mi = mutual_information(jc)

    if normalize:
        mi = channel_capacity_normalization(mi, n_x, n_y)

    return mi


def weighted_mi(features, weights, n_feature_states=None, normalize=True):
    """Compute a mutual information matrix using weighted observations.

    This function computes the mutual information of weighted samples by
    actually computing the marginal probability distributions P(x),
    P(y), and P(x, y) for each variable using the weights, rather than
    by computing a joint counts matrix.

    Parameters
    ----------
    features : np.ndarray, shape=(n_observations, n_features)
        Array of observations of multiple variables (features) between
        which to compute the pairwise mutual information.
    weights : np.ndarray, shape=(n_observations)
        Array containing a probability distribution across observations
        by which to weight each observation.
    n_feature_states : np.ndarray, shape=(n_features), default=None
        The number of states each feature can take on (used for normalization).
        If None, max(features) will be used.
    normalize : bool, default=True
        Normalize by channel capacity (two in this case.)

    Returns
    -------
    mi : np.ndarray, shape=(n_features, n_features)
        Array where cell i, j is the mutual information between feature
        i and feature j. This array is symmmetic (i.e. mi.T == mi).
    """
    weights = np.array(weights, copy=True)

    assert len(features.shape) == 2
    assert len(weights.shape) == 1
    assert np.all(weights >= 0)
    assert np.sum(weights), 1

    if weights.shape[0] != features.shape[0]:
        raise exception.DataInvalid(
            "The number of features (%s in array with shape %s) didn't match "
            "the number of weights (%s)" %
            (features.shape[0], features.shape, weights.shape[0]))

    if weights.sum() != 1:
        weights = (weights / np.linalg.norm(weights, ord=1))

    if n_feature_states is None:
        n_feature_states = np.full(features.shape[1], int(features.max()) + 1,
                                   dtype='int16')
    else:
        n_feature_states = np.array(n_feature_states)

    if n_feature_states.shape[0] != (features.shape[1]):
        raise exception.DataInvalid(
            "The length of feature states number vector (%s) must equal the"
            "number of features given (%s)" % (
                n_feature_states.shape[0], features.shape[1])
        )

    mi_mtx = np.zeros((features.shape[1], features.shape[1]), dtype=float)

    max_n_fstates = max(n_feature_states)

    P_marg = np.vstack([np.bincount(features[:, i],
                                    weights=weights,
                                    minlength=max_n_fstates)
                        for i in range(len(mi_mtx))])

    features_1hot = np.dstack([features == u for u in range(max_n_fstates)])

    iis = list(itertools.product(np.arange(max_n_fstates),
                                 np.arange(max_n_fstates)))

    P_joint = np.array(
        [np.matmul((features_1hot[:, :, ii[0]] * weights[:, None]).T,
                   features_1hot[:, :, ii[1]])
         for ii in iis
         ])

    P_prod_marg = np.array([np.meshgrid(P_marg[:, ii[1]],
                                        P_marg[:, ii[0]])
                            for ii in iis])
    P_prod_marg = P_prod_marg[:, 0, :, :] * P_prod_marg[:, 1, :, :]

    mi_mats = np.zeros_like(P_joint, dtype=float)

    # mi_mats = P_joint * np.log(P_joint/P_prod_marg)
    np.divide(P_joint, P_prod_marg, where=(P_prod_marg != 0), out=mi_mats)
    np.log(mi_mats, where=mi_mats != 0, out=mi_mats)
    np.multiply(P_joint, mi_mats, out=mi_mats)

    assert not np.any(np.isnan(mi_mats))
    mi_mtx = mi_mats.sum(axis=0)

    assert not np.any(np.isinf(mi_mtx))

    if normalize:
        mi_mtx = channel_capacity_normalization(
            mi_mtx, n_feature_states, n_feature_states)

    assert not np.any(np.isinf(mi_mtx))
    np.clip(mi_mtx, a_min=0, a_max=np.inf, out=mi_mtx)

    return mi_mtx


def mi_matrix_serial(states_a_list, states_b_list, n_a_states, n_b_states,
                     normalize=True):
    """Compute the mutual information matrix in a serial fashion.

    Used mostly for testing.
    """
    n_traj = len(states_a_list)
    n_features = states_a_list[0].shape[1]
    mi = np.zeros((n_features, n_features))

    for i in range(n_features):
        logger.debug(i, "/", n_features)
        for j in range(i, n_features):
            jc = joint_counts(
                states_a_list[0][:, i], states_b_list[0][:, j],
                n_a_states[i], n_b_states[j])
            for k in range(1, n_traj):
                jc += joint_counts(
                    states_a_list[k][:, i], states_b_list[k][:, j],
                    n_a_states[i], n_b_states[j])

            mi[i, j] = mutual_information(jc)[0,0]
            mi[j, i] = mi[i, j]

    if normalize:
        mi = channel_capacity_normalization(mi, n_a_states, n_b_states)

    return mi


def joint_counts(X, Y=None, n_x=None, n_y=None):
    """Compute the array of joint counts matrices between X and Y (or itself.)

    This function is thread-parallelized using OpenMP. The degree of
    parallelization can be controlled by the OMP_NUM_THREADS evironment
    variable.

    Parameters
    ----------
    X : np.ndarray, shape=(n_observations, n_features)
        List of assignments to discrete states for trajectory 1.
    Y : np.ndarray, shape=(n_observations, n_features), default=None
        As X, but can be left as None to indicate that joint counts are
        to be computed between X and itself.
    n_x : int, default=None
        Number of total possible states in X. If unspecified, taken to
        be max(X)+1.
    n_y : int, default=None
        Number of total possible states in Y. If unspecified, taken to be
        max(Y)+1.

    Returns
    -------
    jc : np.ndarray, shape=(n_features, n_features, n_x, n_y)
        Array of joint counts matrices, where the cell [x, y, i, j]
        holds the number of times features X and Y were found
        simultaneously in states i and j.
    """

    if len(X.shape) == 1:
        X = X[..., None]
    if Y is not None and len(Y.shape) == 1:
            Y = Y[..., None]

    if n_x is None:
        n_x = int(X.max()) + 1

    if Y is None:
        if n_y is not None:
            warnings.warn("n_y unused if Y is None.")
        jc = libinfo.matrix_bincount2d(X, X, n_x, n_x)
    else:
        if n_y is None:
            n_y = int(Y.max()) + 1

        if X.dtype != Y.dtype:
            warnings.warn(
                "Feature trajs (types %s and %s) being uptyped to match." %
                (X.dtype, Y.dtype), exception.PerformanceWarning)

            # a signed id cast to an unsigned type (or the reverse) would wrap
            common = np.promote_types(X.dtype, Y.dtype)
            if common.kind == 'f':
                # uint64 and a signed type share no integer type; every
                # id the kernel accepts fits int64.
                common = np.dtype(np.int64)
            X = X.astype(common, copy=False)
            Y = Y.astype(common, copy=False)

        jc = libinfo.matrix_bincount2d(X, Y, n_x, n_y)

    return jc


def mutual_information(jc):
    """Compute the mutual information of a joint counts matrix or matrix
    of joint counts matrices.

    Parameters
    ----------
    jc : ndarray, dtype=int, shape=(n_feat, n_feat, n_states, n_states)
        Array where the cell (i, j, u, v) represents the number of times
        feature i was seen in state u and feature j was seein in state v.

    Returns
    -------
    mutual_information : np.ndarray, shape=(n_feat, n_feat)
        The mutual information of the joint counts matrix
    """

    jc = _validate_joint_counts_matrix(jc)

    # marginalize both state axes as number of observations along 'a'
    # and 'b' dimensions
    n_obs_a_i = jc.sum(axis=-1)
    n_obs_b_i = jc.sum(axis=-2)

    # marginalize other axis to get total number of observations for
    # each feature
    n_obs = n_obs_a_i.sum(axis=-1)

    P_a = np.divide(n_obs_a_i, n_obs[..., None],
                    where=n_obs[..., None] > 0,
                    out=np.zeros(n_obs_a_i.shape, dtype=float))
    P_b = np.divide(n_obs_b_i, n_obs[..., None],
                    where=n_obs[..., None] > 0,
                    out=np.zeros(n_obs_b_i.shape, dtype=float))

    assert np.all(~np.isnan(P_a))
    assert np.all(~np.isnan(P_b))

    P_a_b = np.divide(jc, n_obs[..., None, None],
                      where=n_obs[..., None, None] > 0,
                      out=np.zeros(jc.shape, dtype=float))

    assert np.all(~np.isnan(P_a_b))
    mi = np.zeros(shape=jc.shape[0:2])
    for i in range(jc.shape[0]):
        for j in range(jc.shape[1]):
            P_x_y = P_a_b[i, j]
            P_x = P_a[i, j]
            P_y = P_b[i, j]

            for u in range(P_x_y.shape[0]):
                for v in range(P_x_y.shape[1]):
                    unddef = ((P_x_y[u, v] == 0) or
                              (P_x[u] == 0) or
                              (P_y[v] == 0))
                    if not unddef:
                        mi[i, j] += (P_x_y[u, v] *
                                     np.log(P_x_y[u, v]/(P_x[u]*P_y[v])))

    return mi


def mi_to_nmi_apc(mutual_information, H_marginal=None):
    """Compute the normalized mutual information-average product
    correlation given a mutual information matrix.

    Parameters
    ----------
    mutual_information : array, shape=(n_features, n_features)
        Mutual information array
    H_marginal: array, shape=(n_features), default=None
        The marginal shannon entropy of each feature. If None (the
        default), the diagonal of the mutual information matrix is
        assumed to be the marginal entropies, as computed by
        enspara.info_theory.mutual_information when compute_diagonal is
        True.

    Returns
    -------
    nmi_apc : float
        The NNI-APC between each pair of states in assignments_a and
        assignments_b

    Notes
    -----
    This function implements the NMI-APC metric proposed by Lopez et al
    for assessing sequence covariation. The equation is a combination of
    normalized mutual entropy (NMI) and average product correlation
    (APC), both of which are used for sequence covariation. The equation
    for NMI-APC is

    NMI-APC(M_i, M_j) = I(M_i, M_j) - APC(M_i, M_j) / H(M_i, M_j)

    where I is the mutual information and H is the shannon entropy of
    the joint distributions of random variables/distributions M_i and
    M_j. Supplimentary Note 1 in ref [1] is an excellent summary of this
    approach.

    See Also
    --------
    mi_matrix : computes the mutual information for a message.
    apc_matrix : computes the average product correlation for a set of
        assignments

    References
    ----------
    .. [1] Dunn, S.D., et al (2008) Bioinformatics 24 (3): 330--40.
    .. [2] Lopez, T., et al (2017) Nat. Struct. & Mol. Biol. 24: 726--33.
        doi:10.1038/nsmb.3440
    """

    _validate_mutual_information_matrix(mutual_information)

    # compute mutual information
    apc_arr = mi_to_apc(mutual_information)
    nmi = mi_to_nmi(mutual_information, H_marginal)

    with warnings.catch_warnings():
        # zeros in the NMI matix cause nans
        warnings.simplefilter("ignore")

        # the NMI computes the MI/joint_H, thus NMI^-1 * MI = joint_H.
        H_joint = (nmi ** -1) * mutual_information

    nmi_apc_arr = mutual_information - apc_arr

    # normalize NMI-APC by joint entropies.
    with warnings.catch_warnings():
        warnings.simplefilter("ignore")
        # suppress potential divide by zero
        nmi_apc_arr /= H_joint

    nmi_apc_arr[np.isnan(nmi_apc_arr)] = 0

    return nmi_apc_arr


def deconvolute_network(G_obs):
    """Compute the deconvolution of a given network. This method
    attempts to estimate the direct network given a network that is a
    combination of direct and indirect effects. For example, if A is
    correlated with B and B is correlated with C, then A and C will also
    be correlated.

    Specifically, this method solves for G_dir given G_obs:

    G_obs = G_dir + G_dir^2 + G_dir^3 + ...
          = G_dir * (I - G_dir)^-1

    Parameters
    ----------
    G_obs : ndarray, shape=(n, n)
        Weight matrix for the observed correlations in the network

    Returns
    -------
    G_dir : ndarray, shape=(n, n)
        The direct correlations inferred from G_obs

    References
    ----------
    [1] Feizi, S., et al (2013) Nat. Biotechnol 31 (8): 726--33.
    """

    from numpy.linalg import eig, inv

    v, w = eig(G_obs)
    v_dir = v / (1 + v)
    sig_dir = np.diagflat(v_dir)
    G_dir = np.matmul(np.matmul(w, sig_dir), inv(w))

    return G_dir


def mi_to_nmi(mutual_information, H_marginal=None):
    """Given a mutual information matrix, compute the normalized mutual
    information, which is given by:

    NMI(M_i, M_j) = I(M_i, M_j) / H(M_i, M_j)

    where I is the mutual information function and H is the shannon
    entropy of the joint distribution of M_i and M_j.

    Parameters
    ----------
    mutual_information : ndarray, shape=(n_features, n_features)
        Mutual information matrix.information
    H_marginal : array-like, shape=(n_features)
        The marginal entropies of each variable. If None, values will be
        inferred from the diagonal of `mutual_information`.

    Returns
    -------
    nmi : ndarray, shape=(n_features, n_features)
        The normalized mutual information matrix
    """

    _validate_mutual_information_matrix(mutual_information)

    if H_marginal is None:
        H_marginal = np.diag(mutual_information)
    if np.any(H_marginal == 0):
        warnings.warn(
            'H_marginal contains zero entries. This may lead to '
            'negative information.')

    if len(H_marginal) != len(mutual_information):
        raise exception.DataInvalid(
            "H_marginal must be the same length as the mutual "
            "information matrix. Got %s and %s." %
            (len(H_marginal), len(mutual_information)))

    if np.all(H_marginal == 0) or np.any(np.isnan(H_marginal)):
        raise exception.DataInvalid(
            'The mutual information matrix must have non-zero entries '
            'and cannot contain any nan values. Found %s zero entries '
            'and %s nan entries.' % (
                np.count_nonzero(H_marginal == 0),
                np.count_nonzero(np.isnan(H_marginal))))

    # if we got H_marginal as an argument, we'll fill it in for
    # simplicity's sake, but we don't want to modify the array the user
    # gave in place, so we copy
    mutual_information = mutual_information.copy()
    mutual_information[np.diag_indices_from(mutual_information)] = H_marginal

    # compute the joint shannon entropies using MI and marginal entropies
    H_joint = np.zeros_like(mutual_information)
    for i in range(len(H_joint)):
        for j in range(len(H_joint)):
            H_joint[i, j] = (
                H_marginal[i] + H_marginal[j] -
                mutual_information[i, j])

    nmi = mutual_information / H_joint

    # all diagonal entries should be 1
    np.fill_diagonal(nmi, 1)

    # nans introduced by H_joint == 0 should be 0
    nmi[np.isnan(nmi)] = 0

    return nmi


def mi_to_apc(mi_arr):
    """Given a mutual information matrix, compute the average product
    correlation.

    Parameters
    ----------
    mi_arr : ndarray, shape=(n_features, n_features)
        Mutual information matrix of which to compute the APC.

    Returns
    -------
    apc_matrix : ndarray, shape=(n_features, n_features)
        Matrix of average product correlations.

    Notes
    -----
    The equation for APC given MI is

    APC(M_i, M_j) = Σr I(M_i, M_r)*I(M_j, M_r) ; r ∈ [0, n_features]

    Interestingly, this is the same as :math:`(MI/n)^2`, where n is the number
    of rows or columns in the matrix.

    See Also
    --------
    enspara.info_theory.deconvolute_network : computes a similar
        quantity, but using :math:`MI^3`, :math:`MI^4`, etc too.

    References
    ----------
    .. [1] Dunn, S.D., et al (2008) Bioinformatics 24 (3): 330--40.
    """

    _validate_mutual_information_matrix(mi_arr)

    return np.matmul(mi_arr, mi_arr) / (len(mi_arr) * len(mi_arr))


def channel_capacity_normalization(mi, n_x, n_y):
    """Normalize an MI matrix by the channel capacity of each feature pair.

    The channel capacity is a information-theoretic quantity that measures
    the maximum amount of information that can be reliably transmitted along
    a channel. In our simple case, this is the log of the number of states.

    Parameters
    ----------
    mi : np.ndarray, shape=(n_features_a, n_features_b)
        Mutual information matrix
    n_x : np.ndarray or int, shape(n_features_a)
        Vector with element i representing the number of states
        feature_a i takes.
    n_y : np.ndarray or int, shape(n_features_b)
        Vector with element i representing the number of states
        feature_b i takes.
    Returns
    -------
    cc_mi : np.ndarray, shape=(n_features_a, n_features_b)
        Mutual information matrix scaled by channel capacity.
    """
    mi = mi.copy()

    n_x = _validate_feature_states_array(n_x, mi.shape[0])
    n_y = _validate_feature_states_array(n_y, mi.shape[1])

    assert np.all(n_x >= 2)
    assert np.all(n_y >= 2)

    min_num_states = np.fmin(*np.meshgrid(n_x, n_y, indexing='ij'))
    np.divide(mi, np.log(min_num_states), out=mi)

    return mi


def check_features_states(states, n_states):
    n_features = len(n_states)

    if len(states[0][0]) != n_features:
        raise exception.DataInvalid(
            ("The number-of-states vector's length ({s}) didn't match the "
             "width of state assignments array with shape {a}.")
            .format(s=len(n_states), a=len(states[0][0])))

    if not all(len(t[0]) == len(states[0][0]) for t in states):
        raise exception.DataInvalid(
            ("The number of features differs between trajectories. "
             "Numbers of features were: {l}.").
            format(l=[len(t[0]) for t in states]))


def _validate_joint_counts_matrix(jc):

    if len(jc.shape) == 2:
        raise exception.DataInvalid(
            ("Expected a 4D array of joint counts matrices, but got a 2D "
             " array. If your dataset is a single joint counts matrix, "
             "try `jc[None, None, ...]` to expand its dimensions."))
    if len(jc.shape) != 4:
        raise exception.DataInvalid(
            ("Expected a 4D array of joint counts matrices, but an array "
             "with shape %s.") % (jc.shape,))

    return jc


def _validate_mutual_information_matrix(mi):
    """Check features of mutual information matrix:

    0. must be 2D
    1. must be square
    2. must be symmetric
    """

    if len(mi.shape) != 2:
        raise exception.DataInvalid(
            'MI arrays must be 2D. Got %s.' % len(mi.shape))

    if mi.shape[0] != mi.shape[1]:
        raise exception.DataInvalid(
            "Mutual information matrices must be square; got shape %s."
            % mi.shape)

    if not np.all(mi.T == mi):
        diffpos = np.where(mi.T != mi)
        raise exception.DataInvalid(
            "Mutual information matrices must be symmetric; found "
            "differences at %s positions." % len(diffpos[0]))


def _validate_feature_states_array(n, mi_dim):

    if not hasattr(n, '__len__'):
        n = np.full(mi_dim, n, dtype='int')
    else:
        n = np.array(n)

    if np.any(n < 2):
        raise exception.DataInvalid(
            'Cannot normalize channel capacity for n_states < 1, got: %s'
            % n)

    if len(n) != mi_dim:
        raise exception.DataInvalid(
            "Feature states array must match mi array dim 0 "
            "(got %s and %s)" % (len(n), mi_dim))
    if not issubclass(n.dtype.type, numbers.Integral):
        raise exception.DataInvalid(
            "Feature states array must be integral (got %s)." % n.dtype)
    if np.any(n <= 0):
        raise exception.DataInvalid(
            "Feature states array must be positive.")

    return n

import collections
import copy
import itertools
import logging
import numbers
import numpy as np
import resource
import tables
import time
import warnings

from mdtraj import io
from ..exception import DataInvalid, ImproperlyConfigured

logger = logging.getLogger(__name__)


def zeros_like(array, *args, **kwargs):

    if hasattr(array, '_data'):
        flat_arr = np.zeros_like(array._data)
        return RaggedArray(array=flat_arr, lengths=array.lengths)
    else:
        return np.zeros_like(array)


def where(mask):
    """As np.where, but on _either_ RaggedArrays or a numpy array.

    Parameters
    ----------
    mask : array or RaggedArray

    Returns
    -------
    (rows, columns) : (array, array))
    """
    try:
        iis_flat = np.where(mask._data)
        return _convert_from_1d(iis_flat, starts=mask.starts)
    except AttributeError:
        return np.where(mask)


def save(filename, array, compression_level=1, tag='arr'):
    """Save a RaggedArray or numpy ndarray to disk as an HDF5 file.
     Parameters
    ----------
    filename : str
        Path of file to write out (per tables.open_file).
    array : np.ndarray, RaggedArray
        Array to write to disk.
    compression_level : int
        Level of compression to use, 0-9, with 0 meaning no compression.
        Per the pytables Filters complevel flag.
    tag : str, default='array'
        The name under which each row in the ragged array will be saved,
        for example 'array_00'.
    """

    try:
        n_zeros = len(str(len(array.lengths))) + 1
    except AttributeError:
        n_zeros = 1
        array = [array]

    compression = tables.Filters(
        complevel=compression_level,
        complib='zlib',
        shuffle=True)

    with tables.open_file(filename, 'w') as handle:
        for i in range(len(array)):
            subarr = array[i]

            if hasattr(array, '_data'):
                atom = tables.Atom.from_dtype(array._data.dtype)
            else:
                atom = tables.Atom.from_dtype(subarr.dtype)

            t = tag + '_' + str(i).zfill(n_zeros)

            node = handle.create_carray(
                where='/', name=t, atom=atom,
                shape=subarr.shape, filters=compression)

            # PyTables copies a non-contiguous array only if its strides do
            # not sum to zero; hand it C-ordered data in every case.
            node[:] = np.ascontiguousarray(subarr)

    return filename


def _save_old_style(output_name, ragged_array):
    """Depricated en bloc RaggedArray saving routine.

    Parameters
    ----------
    output_name : str
        Path of file to write out.
    ragged_array : np.ndarray, RaggedArray
        Array to write to disk.

    See Also
    --------
    mdtraj.io.saveh
    """

    try:
        io.saveh(
            output_name,
            array=ragged_array._data,
            lengths=ragged_array.lengths)
    except AttributeError:
        # A TypeError results when the input is actually an ndarray
        io.saveh(output_name, ragged_array)


def load(input_name, keys=..., stride=1):
    """Load a RaggedArray from the disk. If only 'arr_0' is present in
    the target file, a numpy array is loaded instead.

    Parameters
    ----------
    input_name: filename or file handle
        File from which data will be loaded.
    keys : list, default=...
        If this option is specified, the ragged array is built from this
        list of keys, each of which are assumed to be a row of the final
        ragged array. An ellipsis can be provided to indicate all keys.
    stride: int, default=1
        This option specifies a stride in the second dimension of the
        loaded ragged array. This is equivalent to slicing out
        [:, ::stride], except that it does not load the entire dataset
        into memory.

    Returns
    -------
    ra : RaggedArray
        A ragged array from disk.
    """

    with tables.open_file(input_name) as handle:
        if keys is None:
            if '/lengths' in handle:
                a = RaggedArray(
                    handle.get_node('/array'),
                    lengths=handle.get_node('/lengths'))
                return a[::stride]
            else:
                return handle.get_node('/arr_0')[::stride]
        else:
            if keys is Ellipsis:
                keys = [k.name for k in handle.list_nodes('/')]
            if '/lengths' in handle and '/array' in handle:
                warnings.warn("Found keys '/lengths' and '/array' in h5 "
                              "file %s, are you sure this isn't an "
                              "old-style h5?" % input_name,
                              DeprecationWarning)
            if len(keys) == 1:
                logger.debug("Found only one key ('%s') returning that as "
                             "numpy array", keys[0])
                return handle.get_node('/' + keys[0])[::stride]

            logger.debug('Loading keys %s into RA', keys)

            shapes = [handle.get_node(where='/', name=k).shape
                      for k in keys]

            if not all(len(shapes[0]) == len(shape) for shape in shapes):
                raise DataInvalid(
                    "Loading a RaggedArray using HDF5 file keys requires "
                    "that all input arrays have the same dimension. Got "
                    "shapes: %s" % shapes)
            for dim in range(1, len(shapes[0])):
                if not all(shapes[0][dim] == shape[dim] for shape in shapes):
                    raise DataInvalid(
                        "Loading a RaggedArray using HDF5 file keys requires "
                        "that all input arrays share nonragged dimensions. "
                        " Dimension  %s didn't match. Got shapes: %s"
                        % (dim, shapes))

            lengths = [(shape[0] + stride - 1) // stride for shape in shapes]
            concat_shape = (sum(lengths),) + (shapes[0][1:])

            dtype = handle.get_node(where='/', name=keys[0]).dtype
            if not all([dtype == handle.get_node(where='/', name=k).dtype
                        for k in keys]):
                raise DataInvalid(
                    "Can't load keys in %s because the keys didn't have all "
                    "the same dtype. Keys were: %s" % (dtype, keys))

            logger.debug('Allocating array of shape %s.', concat_shape)
            tick = time.perf_counter()
            concat = np.zeros(concat_shape, dtype=dtype)
            tock = time.perf_counter()
            logger.debug('Allocated %.3f MB in %.2f min.',
                         concat.data.nbytes / 1024**2, tock - tick)

            logger.debug(
                'Filling array with %s blocks with initial memory '
                'footprint of %.3f GB',
                len(keys),
                resource.getrusage(resource.RUSAGE_SELF).ru_maxrss / 1024**2)

            tick = time.perf_counter()
            start = 0
            for key in keys:
                node = handle.get_node(where='/', name=key)[::stride]
                end = start + len(node)
                concat[start:end] = node
                start = end

            tock = time.perf_counter()
            logger.debug(
                'Filled RaggedArray in %.3f min with %.3f GB memory overhead.',
                (tock - tick) / 60,
                resource.getrusage(resource.RUSAGE_SELF).ru_maxrss / 1024**2)
            tick = time.perf_counter()

            handle.close()
            return RaggedArray(array=concat, lengths=lengths, copy=False)


def partition_indices(indices, traj_lengths):
    '''
    Similar to _partition_list in function, this function uses
    `traj_lengths` to determine which 2d trajectory-list index matches
    the given 1d concatenated trajectory index for each index in
    indices.
    '''

    partitioned_indices = []
    for index in indices:
        trj_index = 0
        for traj_len in traj_lengths:
            if traj_len > index:
                partitioned_indices.append((trj_index, index))
                break
            else:
                index -= traj_len
                trj_index += 1

    return partitioned_indices


def _convert_from_1d(iis_flat, lengths=None, starts=None):
    """Given 1d indices, converts to 2d."""
    if lengths is None and starts is None:
        raise ImproperlyConfigured(
            'No lengths or starts supplied')
    if starts is None:
        starts = np.append([0], np.cumsum(lengths)[:-1])
    iis_flat = iis_flat[0]
    first_dimension = [
        np.where(starts <= ii)[0][-1] for ii in iis_flat]
    second_dimension = [
        iis_flat[num]-starts[first_dimension[num]]
        for num in range(len(iis_flat))]
    return (np.array(first_dimension, dtype=int),
            np.array(second_dimension, dtype=int))


def _handle_negative_indices(
        first_dimension, second_dimension, lengths=None, starts=None):
    """Given 2d indices as first_dimenion and second_dimension, converts
       any negative index to a positive one."""
    if type(first_dimension) is not np.ndarray:
        first_dimension = np.array(first_dimension)
    if type(second_dimension) is not np.ndarray:
        second_dimension = np.array(second_dimension)
    if np.ndim(first_dimension)==0:
        first_dimension = first_dimension.reshape(-1)
    if np.ndim(second_dimension)==0:
        second_dimension = second_dimension.reshape(-1)

    # remove negative indices from first dimension
    first_dimension_neg_iis = np.where(first_dimension < 0)[0]
    second_dimension_neg_iis = np.where(second_dimension < 0)[0]
    if len(first_dimension_neg_iis) > 0:
        if first_dimension.size > 1:
            first_dimension[first_dimension_neg_iis] += len(starts)
        else:
            first_dimension += len(starts)
        if (first_dimension<0).sum() > 0:
            # TODO: have clear error message here
            raise IndexError()
    # remove negative indices from second dimension
    if len(second_dimension_neg_iis) > 0:
        if lengths is None:
            raise ImproperlyConfigured(
                'Must supply lengths if indices are negative.')
        if second_dimension.size > 1:
            if first_dimension.size > 1:
                second_dimension[second_dimension_neg_iis] += lengths[
                    first_dimension[second_dimension_neg_iis]]
            else:
                second_dimension[second_dimension_neg_iis] += lengths[
                    first_dimension]
        else:
            second_dimension += lengths[first_dimension]
        if (second_dimension<0).sum() > 0:
            # TODO: have clear error message here
            raise IndexError()
    return first_dimension, second_dimension


def _convert_from_2d(iis_ragged, lengths=None, starts=None, error_check=True):
    """Given indices in 2d, returns the corresponding 1d indices.
       Requires either lengths or starts."""
    if lengths is None and starts is None:
        raise ImproperlyConfigured(
            'No lengths or starts supplied')
    if starts is None:
        starts = np.append([0], np.cumsum(lengths)[:-1])
    first_dimension, second_dimension = iis_ragged
    first_dimension = np.array(first_dimension)
    second_dimension = np.array(second_dimension)
    # Account for iis = ([0,1,2],4)
    if first_dimension.size > 1 and second_dimension.size == 1:
        second_dimension = np.array(
            [second_dimension for n in first_dimension])
    first_dimension, second_dimension = _handle_negative_indices(
        first_dimension, second_dimension, lengths=lengths, starts=starts)
    # Check if row is too short for indexing
    if lengths is not None and error_check:
        if np.any(lengths[first_dimension] <= second_dimension):
            raise IndexError(("Length of dimension {} ({}) is out of "
                              "range for index {}")
                             .format(first_dimension, lengths[first_dimension],
                                     second_dimension))
    iis_flat = starts[first_dimension] + second_dimension
    return (iis_flat,)


def _slice_to_list(slice_func, length=None):
    """Converts a slice to a list. Requires the length of the array if
       slicing to a negative index or there is no stopping criterion."""
    if length is None:
        raise ImproperlyConfigured(
            'Must supply length of array to expand a slice')
    return range(*slice_func.indices(length))


def partition_list(list_to_partition, partition_lengths):
    """Partitions list by partition lengths. Different from previous
       versions in that is does not return a masked array."""
    if np.sum(partition_lengths) != len(list_to_partition):
        raise DataInvalid(
            'Number of elements in list (%d) does not equal' %
            len(list_to_partition) +
            ' the sum of the lengths to partition (%d)' %
            np.sum(partition_lengths))
    partitioned_list = []
    start = 0
    for num in range(len(partition_lengths)):
        stop = start+partition_lengths[num]
        partitioned_list.append(list_to_partition[start:stop])
        start = stop
    return partitioned_list


def _is_iterable(iterable):
    """Indicates if the input is iterable but not due to being a string or
       bytes. Returns a boolean value."""
    iterable_bool = isinstance(iterable, collections.abc.Iterable) and not \
        isinstance(iterable, (str, bytes))
    return iterable_bool


def _ensure_ragged_data(array):
    """Raises an exception if the input is either:
       1) not an array of arrays or 2) not a 1 dimensional array"""
    if not _is_iterable(array):
        raise DataInvalid('Must supply an array or list of arrays as input')
    if len(array) == 0:
        pass
    if len(array) == 1:
        pass
    else:
        for num in range(len(array)-1):
            if _is_iterable(array[num]) != _is_iterable(array[num+1]):
                raise DataInvalid(
                    'The array elements in the input are not consistent.')
    return


def _format__arrayline(_arrayline, operator):
    """Formats a single line of an array"""
    formatted = getattr(_arrayline, operator)().split(')')[0].split('(')[-1]
    return formatted


def _format_array(array, operator):
    """Formats a ragged array output"""
    # Determine the correct formatting for the operator
    if operator == '__repr__':
        header = 'RaggedArray([\n'
        aftermath = '])'
        line_spacing = '      '
    elif operator == '__str__':
        header = '['
        aftermath = ']'
        line_spacing = ' '
    body = []
    # If the length of the array is greater than 6, generates an elipses
    if len(array) > 6:
        for i in [0, 1, 2]:
            body.append(
                line_spacing+_format__arrayline(array[i], operator))
        body.append(line_spacing+'...')
        for i in [-3, -2, -1]:
            body.append(
                line_spacing+_format__arrayline(array[i], operator))
        return "".join([header, ",\n".join(body), aftermath])
    else:
        for i in range(len(array)):
            body.append(
                line_spacing+_format__arrayline(array[i], operator))
        return "".join([header, ",\n".join(body), aftermath])


def _get_iis_from_slices(first_dimension_iis, second_dimension, lengths):
    """Given the indices of the first dimension, the second dimension
    (as a slice), and the lengths of the ragged dimension, returns the
    2D indices and the new lengths in the ragged dimension."""
    iis_2d = []
    iis_2d_lengths = []
    for num in first_dimension_iis:
        # per-row python slice semantics (negative bounds/steps, clipping)
        splits_inds = np.arange(*second_dimension.indices(lengths[num]))
        iis_2d.append(splits_inds)
        iis_2d_lengths.append(len(splits_inds))
    iis_2d_lengths = np.array(iis_2d_lengths, dtype=int)
    iis_1d = np.repeat(
        np.asarray(first_dimension_iis, dtype=int), iis_2d_lengths)
    return (iis_1d, np.concatenate(iis_2d)), iis_2d_lengths


def _get_iis_from_list(first_dimension, second_dimension):
    """Given the indices of the first dimension, the second dimension
    (as a list), and the lengths of the ragged dimension, returns the
    2D indices and the new lengths in the ragged dimension."""
    iis = np.array(
        list(itertools.product(first_dimension, second_dimension))).T
    new_lengths = list(
        itertools.repeat(len(second_dimension), len(first_dimension)))
    return iis, new_lengths


class RaggedArray(object):
    """RaggedArray class

    The RaggedArray class takes an array of arrays with various lengths and
    returns an object that allows for indexing, slicing, and querying as if a
    2d array. The array is concatenated and stored as a 1d array.

    Attributes
    ----------
    _array : array, [n,]
        The original input array.
    _data : array,
        The concatenated array.
    lengths : array, [n]
        The length of each sub-array within _array
    starts : array, [n]
        The indices of the 1d array that correspond to the first element in
        _array.
    """

    __slots__ = ('_data', '_array', 'lengths')

    # numpy scalars/arrays as LEFT operand defer to the reflected operators
    __array_ufunc__ = None

    def __init__(self, array, lengths=None, error_checking=True, copy=True):
        # Check that input is proper (array of arrays)
        if error_checking:
            if len(array) > 20000:
                # lenghts is None => we are not inferring lengths from
                # e.g. nested lists
                if lengths is None:
                    logger.warning(
                        "error checking is turned off for ragged arrays "
                        "with first dimension greater than 20000")
            else:
                _ensure_ragged_data(array)

        # prepare self._data
        if (len(array) > 0) and (lengths is None):
            logger.debug("Interpreting array as list/array of lists/arrays.")
            if _is_iterable(array[0]):
                if not copy:
                    warnings.warn(
                        "Can't create a view into %s, copying anyway." %
                        type(array), RuntimeWarning)
                try:
                    self._data = np.concatenate(array)
                # if 2nd and 3rd dims are ragged, need object array to store them.
                except ValueError:
                    self._data = np.array([np.array(j) for i in array for j in i], dtype='O')
            else:
                self._data = np.array(array, copy=copy)
        else:
            logger.debug("Interpreting array as concatenated array.")
            self._data = np.array(array, copy=copy)

        # Prepare with _array
        # new array greater with >0 elements
        if (lengths is None) and (len(array) > 0):
            # array of arrays
            if _is_iterable(array[0]):
                self.lengths = np.array([len(i) for i in array], dtype=int)
                self._array = np.array(
                    partition_list(self._data, self.lengths), dtype='O')
               
            # array of single values
            else:
                self.lengths = np.array([len(array)], dtype=int)
                self._array = self._data.reshape((1, self.lengths[0]))
        # null array
        elif lengths is None:
            self.lengths = np.array([], dtype=int)
            self._array = []
        # rebuild array from 1d and lengths
        # special case for lengths equivalent
        elif np.all(lengths == lengths[0]):
            try:
                self._array = self._data.reshape(
                    (len(lengths), lengths[0]) + self._data.shape[1:])
            except DataInvalid:
                raise DataInvalid(
                    "Sum of lengths (%s) didn't match data shape (%s)." %
                    (sum(lengths), self._data.shape))
            self.lengths = np.array(lengths)
        else:
            try:
                self._array = np.array(
                    partition_list(self._data, lengths), dtype='O')
            except DataInvalid:
                raise DataInvalid(
                    "Sum of lengths (%s) didn't match data shape (%s)." %
                    (sum(lengths), self._data.shape))
            self.lengths = np.array(lengths)

    @property
    def dtype(self):
        return self._data.dtype

    @property
    def shape(self):
        if np.any(self.lengths-self.lengths[0]):
            rag_second_dim = None
        else:
            rag_second_dim = self.lengths[0]
        if _is_iterable(self._data[0]):
            data_dim = self._data.shape
            if len(data_dim) == 1:
                return (len(self.lengths), rag_second_dim, None)
            else:
                return (len(self.lengths), rag_second_dim, self._data.shape[1])
        return (len(self.lengths), rag_second_dim)

    @property
    def size(self):
        return len(self._data)

    @property
    def starts(self):
        return np.append([0], np.cumsum(self.lengths)[:-1])

    # Built in functions
    def __len__(self):
        return len(self._array)

    def __repr__(self):
        return _format_array(self._array, '__repr__')
    def __str__(self):
        return _format_array(self._array, '__str__')

    def __getitem__(self, iis):
        # ints are handled by numpy
        if isinstance(iis, numbers.Integral):
            return self._array[iis]
        # slices and lists are handled by numpy, but return a RaggedArray
        elif isinstance(iis, (slice, list, np.ndarray)):
            return RaggedArray(self._array[iis])
        # tuples get index conversion from 2d to 1d
        elif isinstance(iis, tuple):
            first_dimension, second_dimension = iis
            # if the first dimension is a slice, converts both sets of indices
            if isinstance(first_dimension, slice):
                first_dimension_iis = _slice_to_list(
                    first_dimension, length=len(self.lengths))
                # if the second dimension is a slice, determines the 2d indices
                # from the lengths in the ragged dimension
                if isinstance(second_dimension, slice):
                    iis, new_lengths  = _get_iis_from_slices(
                        first_dimension_iis, second_dimension, self.lengths)
                # if second dimension is an int, make it look like a list
                # and get iis
                elif isinstance(second_dimension, numbers.Integral):
                    iis, new_lengths = _get_iis_from_list(
                        first_dimension_iis, [second_dimension])
                else:
                    iis, new_lengths = _get_iis_from_list(
                        first_dimension_iis, second_dimension)
            elif isinstance(second_dimension, slice):
                # if the first dimension is an int, but the second is
                # a slice, numpy can handle it.
                if isinstance(first_dimension, numbers.Integral):
                    return self._array[first_dimension][second_dimension]
                # if the second dimension is a slice, determines the 2d indices
                # from the lengths in the ragged dimension
                else:
                    iis, new_lengths  = _get_iis_from_slices(
                        first_dimension, second_dimension, self.lengths)
                    # first_dimension_iis = first_dimension
                    # iis, new_lengths  = _get_iis_from_slices(
                    #     first_dimension_iis, second_dimension, self.lengths)
            # If the indices are a tuple, but does not contain a slice,
            # does regular conversion.
            else:
                return self._data[
                        _convert_from_2d(
                            iis, lengths=self.lengths, starts=self.starts)]
            # Takes 2D indices generated from slicing in first or second
            #dimension and returns data formatted with new_lengths
            sliced_data = self._data[
                _convert_from_2d(
                    iis, lengths=self.lengths, starts=self.starts)]
            return RaggedArray(sliced_data, lengths=new_lengths)

        # if the indices are of self, assumes a boolean matrix. Converts
        # bool to indices and recalls __getitem__
        elif type(iis) is type(self):
            iis = where(iis)
            return self.__getitem__(iis)

    def __setitem__(self, iis, value):
        if type(value) is type(self):
            value = value._array
        # ints, slices, lists, and numpy objects are handled by numpy
        if isinstance(iis, (numbers.Integral, slice, list, np.ndarray)):
            self._array[iis] = value
            self.__init__(self._array)
        # tuples get index conversion from 2d to 1d
        elif isinstance(iis, tuple):
            first_dimension, second_dimension = iis
            # if the first dimension is a slice, converts both sets of indices
            if isinstance(first_dimension, slice):
                first_dimension_iis = _slice_to_list(
                    first_dimension, length=len(self.lengths))
                # if second dimension is a slice, determines the 2d indices
                # from the lengths in the ragged dimension
                if isinstance(second_dimension, slice):
                    iis, new_lengths = _get_iis_from_slices(
                        first_dimension_iis, second_dimension, self.lengths)
                # if the second dimension is an int, make it look like a list
                # and get iis
                elif isinstance(second_dimension, numbers.Integral):
                    iis, new_lengths = _get_iis_from_list(
                        first_dimension_iis, [second_dimension])
                else:
                    iis, new_lengths = _get_iis_from_list(
                        first_dimension_iis, second_dimension)
            elif isinstance(second_dimension, slice):
                # if the first dimension is an int, but the second is
                # a slice, numpy can handle it.
                if isinstance(first_dimension, numbers.Integral):
                    self._array[first_dimension][second_dimension] = value
                    self.__init__(self._array)
                    return
                # if the second dimension is a slice, pick the maximum length
                # of all arrays for conversion of slice to list. Indices that
                # do not exist are later removed.
                else:
                    first_dimension_iis = first_dimension
                    iis, new_lengths = _get_iis_from_slices(
                        first_dimension_iis, second_dimension, self.lengths)
            # If the indices are a tuple, but does not contain a slice,
            # does regular conversion.
            else:
                iis_1d = _convert_from_2d(
                    iis, lengths=self.lengths, starts=self.starts)
                # concatenates values if necessary
                if _is_iterable(value):
                    if len(value) > 0 and _is_iterable(value[0]):
                        value_1d = np.concatenate(value)
                    else:
                        value_1d = value
                else:
                    value_1d = value
                self._data[iis_1d] = value_1d
                self._array = np.array(
                    partition_list(self._data, self.lengths), dtype='O')
                return
            # Takes 2D indices generated from slicing in the first or second
            # dimension and sets data values to input values
            iis_1d = _convert_from_2d(
                iis, lengths=self.lengths, starts=self.starts)
            if _is_iterable(value):
                if len(value) > 0 and _is_iterable(value[0]):
                    value_1d = np.concatenate(value)
                else:
                    value_1d = value
            else:
                value_1d = value
            self._data[iis_1d] = value_1d
            self._array = np.array(
                partition_list(self._data, self.lengths), dtype='O')
        # if the indices are of self, assumes a boolean matrix. Converts
        # bool to indices and recalls __getitem__
        elif type(iis) is type(self):
            iis = where(iis)
            self.__setitem__(iis, value)

    def __invert__(self):
        new_data = self._data.__invert__()
        return RaggedArray(new_data, lengths=self.lengths)

    def __eq__(self, other):
        return self.map_operator('__eq__', other)
    def __lt__(self, other):
        return self.map_operator('__lt__', other)
    def __le__(self, other):
        return self.map_operator('__le__', other)
    def __gt__(self, other):
        return self.map_operator('__gt__', other)
    def __ge__(self, other):
        return self.map_operator('__ge__', other)
    def __ne__(self, other):
        return self.map_operator('__ne__', other)
    def __add__(self, other):
        return self.map_operator('__add__', other)
    def __radd__(self, other):
        return self.map_operator('__radd__', other)
    def __sub__(self, other):
        return self.map_operator('__sub__', other)
    def __rsub__(self, other):
        return self.map_operator('__rsub__', other)
    def __mul__(self, other):
        return self.map_operator('__mul__', other)
    def __rmul__(self, other):
        return self.map_operator('__rmul__', other)
    def __truediv__(self, other):
        return self.map_operator('__truediv__', other)
    def __rtruediv__(self, other):
        return self.map_operator('__rtruediv__', other)
    def __floordiv__(self, other):
        return self.map_operator('__floordiv__', other)
    def __rfloordiv__(self, other):
        return self.map_operator('__rfloordiv__', other)
    def __pow__(self, other):
        return self.map_operator('__pow__', other)
    def __rpow__(self, other):
        return self.map_operator('__rpow__', other)
    def __mod__(self, other):
        return self.map_operator('__mod__', other)
    def __rmod__(self, other):
        return self.map_operator('__rmod__', other)
    def __or__(self, other):
        return self.map_operator('__or__', other)
    def __xor__(self, other):
        return self.map_operator('__xor__', other)
    def __and__(self, other):
        return self.map_operator('__and__', other)
    def map_operator(self, operator, other):
        if type(other) is type(self):
            other = other._data
        new_data = getattr(self._data, operator)(other)

        if new_data is NotImplemented:
            return NotImplemented
        else:
            return RaggedArray(array=new_data, lengths=self.lengths,
                               error_checking=False)

    # Non-built in functions
    def all(self):
        return np.all(self._data)

    def any(self):
        return np.any(self._data)

    def max(self):
        return self._data.max()

    def min(self):
        return self._data.min()

    @property
    def size(self):
        return self._data.size

    def append(self, values):
        # if the incoming values is a RaggedArray, pull just the array
        if type(values) is type(self):
            values = values._array
        # if the current RaggedArray is blank, generate a new one
        # with the values input
        if len(self._data) == 0:
            self.__init__(values)
        else:
            # a single row given as a flat sequence of values
            if _is_iterable(values) and len(values) > 0 and \
                    not _is_iterable(values[0]):
                values = [values]
            concat_values = np.concatenate(values)
            self._data = np.append(self._data, concat_values, axis=0)
            # if the values are a list of arrays, add them each individually
            if _is_iterable(values):
                if _is_iterable(values[0]):
                    new_lengths = np.array([len(i) for i in values])
                else:
                    new_lengths = [len(values)]
            else:
                raise DataInvalid(
                    'Expected an array of values or a ragged array')
            # update variables
            self.lengths = np.append(self.lengths, new_lengths)
            self._array = np.array(
                partition_list(self._data, self.lengths), dtype='O')

    def flatten(self):
        return self._data.flatten()

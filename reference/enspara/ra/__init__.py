from .ra import *

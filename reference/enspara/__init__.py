import logging

logging.basicConfig(level=logging.INFO)

"""High-level routines for Correlation of All Rotameric and Dynamical States.
"""

import logging

from ..info_theory import mutual_info

from . import disorder
from .featurizers import RotamerFeaturizer
from ..citation import cite

logger = logging.getLogger(__name__)
logger.setLevel(logging.INFO)


@cite('cards')
def cards(trajectories, buffer_width=15, n_procs=1):
    """Compute ordered, disordered and ordered-disordered mutual
    information matrices for the correlation between rotameric states
    across a set of trajectories.

    Parameters
    ----------
    trajectories: iterable
        Trajectories to consider for the calculation. Generators are
        accepted and can be used to mitigate memory usage.
    buffer_width: int, default=15
        The width of the no-man's land between rotameric bins. Angles
        in this range are not used in the calculation.
    n_procs: int, default=1
        Number of cores to use for the parallel parts of the algorithm.

    Returns
    -------
    structural_mi: ndarrray, shape=(n_dihedrals, n_dihedrals)
        Matrix of MIs where (i,j) is the structural to structural
        communication between dihedrals i and j.
    disorder_mi: ndarray, shape=(n_dihedrals, n_dihedrals)
        Matrix of MIs where (i,j) is the disordered to disordered
        communication between dihedrals i and j.
    struct_to_disorder_mi: ndarray, shape=(n_dihedrals, n_dihedrals)
        Matrix of MIs where (i,j) is the structured to disordered
        communication between dihedrals i and j.
    disorder_to_struct_mi: ndarray, shape=(n_dihedrals, n_dihedrals)
        Matrix of MIs where (i,j) is the structured to disordered
        communication between dihedrals i and j.
    atom_inds: ndarray, shape=(n_dihedrals, 4)
        The atom indicies defining each dihedral
    """

    logger.debug("Assigning to rotameric states")

    r = RotamerFeaturizer(buffer_width=buffer_width, n_procs=n_procs)
    r.fit(trajectories)

    return cards_matrices(r.feature_trajectories_,
                          r.n_feature_states_, n_procs) + (r.atom_indices_,)


@cite('cards')
def cards_matrices(feature_trajs, n_feature_states, n_procs=None):
    """Compute ordered, disordered and ordered-disordered mutual
    infrmation matrices for a set of trajectories of state assignments.

    Parameters
    ----------
    feature_trajs: iterable
        Trajectories of state labels. Generators are accepted and can be
        used to mitigate memory usage.
    n_feature_states: array, shape=(n_features,)
        The total number of possible states for each feature.
    n_procs: int
        Number of cores to use for the parallel parts of the algorithm.

    Returns
    -------
    structural_mi: ndarrray, shape=(n_dihedrals, n_dihedrals)
        Matrix of MIs where (i,j) is the structural to structural
        communication between dihedrals i and j.
    disorder_mi: ndarray, shape=(n_dihedrals, n_dihedrals)
        Matrix of MIs where (i,j) is the disordered to disordered
        communication between dihedrals i and j.
    struct_to_disorder_mi: ndarray, shape=(n_dihedrals, n_dihedrals)
        Matrix of MIs where (i,j) is the structured to disordered
        communication between dihedrals i and j.
    disorder_to_struct_mi: ndarray, shape=(n_dihedrals, n_dihedrals)
        Matrix of MIs where (i,j) is the structured to disordered
        communication between dihedrals i and j.
    """

    disordered_trajs, disorder_n_states = disorder.assign_order_disorder(
        feature_trajs)

    logger.debug("Calculating structural mutual information")
    structural_mi = mutual_info.mi_matrix(
        feature_trajs, feature_trajs,
        n_feature_states, n_feature_states)

    logger.debug("Calculating disorder mutual information")
    disorder_mi = mutual_info.mi_matrix(
        disordered_trajs, disordered_trajs,
        disorder_n_states, disorder_n_states)

    logger.debug("Calculating structure-disorder mutual information")
    struct_to_disorder_mi = mutual_info.mi_matrix(
        feature_trajs, disordered_trajs,
        n_feature_states, disorder_n_states)

    logger.debug("Calculating disorder-structure mutual information")
    disorder_to_struct_mi = mutual_info.mi_matrix(
        disordered_trajs, feature_trajs,
        disorder_n_states, n_feature_states)

    return structural_mi, disorder_mi, struct_to_disorder_mi, \
        disorder_to_struct_mi

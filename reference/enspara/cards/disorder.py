import logging
import numpy as np
from enspara import ra

logger = logging.getLogger(__name__)
logger.setLevel(logging.INFO)


def transitions(assignments):
    """Computes the frames at which a state transition occurs for a list
    of state assignments.

    Parameters
    ----------
    assignments : array, shape=(n_frames) or (n_frames, n_trjs)

    Returns
    -------
    tt : array, shape=(n_transitions) or RA shape=(n_trjs, n_transitions)
       If the input is one-dimensional, an array of the frames at which
       a state transition occurs. If the input is multidimensional (i.e.
       has more than one "row" or trajectory), a ragged array where each
       row includes the frames at which the transition occurrs. If state
       n and n+1 differ in assignment, the transition is reported as n.

    References
    -------------
    .. [1] Sukrit Singh and Gregory R. Bowman, "Quantifying allosteric communication via 
        both concerted structural changes and conformational disorder with CARDS".
        Journal of Chemical Theory and Computation 2017 13 (4), 1509-1517
        DOI: 10.1021/acs.jctc.6b01181 
    """

    if len(assignments.shape) == 1:
        d = assignments[1:] - assignments[:-1]
        tt = np.where(d != 0)[0]
    else:
        d = assignments[:, 1:] - assignments[:, :-1]
        rows, columns = ra.where(d != 0)
        lengths = np.bincount(rows, minlength=d.shape[0])
        tt = ra.RaggedArray(columns, lengths=lengths)

    return tt


def traj_ord_disord_times(transition_times):
    """Calculate order, disorder times from a list of the times of transitions.

    Parameters
    ----------
    transition_times : ndarray, shape=(n_transitions,)
        Array containing the timpoints at which transitions happened

    Returns
    -------
    ord_time : float
        The order time
    n_ord : int
        The number of frames in the ordered state
    disord_time : float
        The disorder time
    n_disord
        The number of frames in the disordered state
    """

    # this is for one trajectory
    # n_org and n_disord variables allow weight multiple trajectories

    num_transitions = transition_times.shape[0]

    disord_time = 0.0
    n_disord = 0.0
    ord_time = 0.0
    n_ord = 0.0

    if num_transitions == 1:
        waiting_time = transition_times[0]
        n_ord = waiting_time
        ord_time = waiting_time*(waiting_time+1.0)/2
    elif num_transitions > 1:
        time_between_events = np.diff(transition_times)

        # disordered time is average waiting time between events
        disord_time = time_between_events.mean()

        # ordered time is average waiting time until event from any starting
        # point
        max_waiting_times = [transition_times[0].tolist()] + \
            time_between_events.tolist()
        max_waiting_times = np.array(max_waiting_times)
        sum_waiting_times = max_waiting_times*(max_waiting_times+1.0)/2
        ord_time = sum_waiting_times.sum()/max_waiting_times.sum()

        # time between first and last event counts towards calculation of
        # disordered time
        n_disord = transition_times[-1]-transition_times[0]
        # n_disord = num_transitions-1

        # time until last even counts towards ordered time
        n_ord = transition_times[-1]

    return ord_time, n_ord, disord_time, n_disord


def create_disorder_traj(transition_times, traj_len, ord_time, disord_time):
    # having default to ordered (state 0) as experiment

    num_transitions = transition_times.shape[0]

    # default to ordered (state 0)
    traj = np.zeros(traj_len)

    # first_time = 0
    # last_time = 0
    # no ordered/disordered segments if two few transitions or timescales are
    # too similar
    # GRB left off check about similar ord/disord times because wasn't sure...
    if num_transitions < 2:  # or ord_time < 3*disord_time:
        return traj  # , first_time, last_time
    else:
        # print "assigning"
        # first_time = transition_times[0]
        # last_time = transition_times[-1]
        for i in range(num_transitions-1):
            seg_start = transition_times[i]
            seg_end = transition_times[i+1]
            time_span = seg_end - seg_start
            likelihood_ratio = ord_time/disord_time * np.exp(-time_span*(1./disord_time - 1./ord_time))
            # print "LR", likelihood_ratio
            if likelihood_ratio >= 3.0:  # favors disordered
                traj[seg_start:seg_end] = 1.
            else:
                traj[seg_start:seg_end] = 0.

        return traj  # , first_time, last_time


def assign_order_disorder(rotamer_trajs):
    """Assigns each frame a disordered or ordered state.

    Frames that are ordered will recieve a value of 0, disordered frames
    are assigned 1.

    Parameters
    ----------
    rotamer_trajs: array, shape=(n_features, n_frames)
        Array of rotameric state assignments

    Returns
    -------
    disordered_trajs: list
        List of arrays with disorder/order assignments for each trajectory
    disorder_n_states: ndarray, shape=(n_features,)
        The number of possible states for each feature in disordered_trajs

    References
    ----------
    .. [1] Sukrit Singh and Gregory R. Bowman, "Quantifying allosteric communication via 
        both concerted structural changes and conformational disorder with CARDS".
        Journal of Chemical Theory and Computation 2017 13 (4), 1509-1517
        DOI: 10.1021/acs.jctc.6b01181 
    """

    logger.debug("Calculating ordered/disordered times")
    n_features = rotamer_trajs[0].shape[1]
    transition_times, mean_ordered_times, mean_disordered_times = \
        transition_stats(rotamer_trajs)

    logger.debug("Assigning to disordered states")
    disordered_trajs = []
    for i in range(len(rotamer_trajs)):
        traj_len = rotamer_trajs[i].shape[0]
        dis_traj = np.zeros((traj_len, n_features))
        for j in range(n_features):
            dis_traj[:, j] = create_disorder_traj(
                transition_times[i][j], traj_len, mean_ordered_times[j],
                mean_disordered_times[j])

        disordered_trajs.append(dis_traj.astype('int16'))
    disorder_n_states = 2*np.ones(n_features, dtype='int16')

    return disordered_trajs, disorder_n_states


def transition_stats(rotamer_trajs):
    """Compute the transition time between disordered/ordered states and
    the mean transition time between a set of trajectories' mean tranisiton times

    Parameters
    ----------
    rotamer_trajs: array, shape=(n_features, n_frames)
        Array of rotameric state assignments

    Returns
    -------
    transition_times: list, shape=(n_traj, n_features, variable)
        For each feature in each trajectory, computes the frames at which a state transition
        occurs

    mean_ordered_times: array, shape=(n_features,)
        Mean ordered time for each feature

    mean_disordered_times: array, shape=(n_features,)
        Mean disordered time for each feature

    References
    ----------
    .. [1] Sukrit Singh and Gregory R. Bowman, "Quantifying allosteric communication via 
        both concerted structural changes and conformational disorder with CARDS".
        Journal of Chemical Theory and Computation 2017 13 (4), 1509-1517
        DOI: 10.1021/acs.jctc.6b01181 
    """

    n_traj = len(rotamer_trajs)

    transition_times = []
    n_features = rotamer_trajs[0].shape[1]
    ordered_times = np.zeros((n_traj, n_features))
    n_ordered_times = np.zeros((n_traj, n_features))
    disordered_times = np.zeros((n_traj, n_features))
    n_disordered_times = np.zeros((n_traj, n_features))
    for i in range(n_traj):
        transition_times.append([])
        for j in range(n_features):
            tt = transitions(rotamer_trajs[i][:, j])
            transition_times[i].append(tt)
            (ordered_times[i, j], n_ordered_times[i, j],
             disordered_times[i, j], n_disordered_times[i, j]) = traj_ord_disord_times(tt)

    trj_lengths = np.array([len(a) for a in rotamer_trajs])
    mean_ordered_times = aggregate_mean_times(
        ordered_times, n_ordered_times, trj_lengths)
    mean_disordered_times = aggregate_mean_times(
        disordered_times, n_disordered_times, trj_lengths)

    return transition_times, mean_ordered_times, mean_disordered_times


def aggregate_mean_times(times, n_times, weight):
    """Compute the mean transition time between a set of trajectories'
    mean transition times.

    Parameters
    ----------
    times : array, shape=(n_trajectories, n_features)
        Array of mean transition times for each trajectory and dihedral.
    n_times : array, shape=(n_trajectories, n_features)
        Array of numbers of transitions observed for each trajectory and
        dihedral.
    weight : array, shape=(n_trajectories,)
        Array of weights for each trajectory. Usually used to weight
        trajectories by their length. Any nonnegative weights can be used.

    Returns
    -------
    mean_times : np.ndarray, shape=(n_features,)
        Mean transition time across trajectories for each dihedral.
    """

    n_features = times.shape[1]
    mean_times = np.zeros(n_features)

    # we normalize by the maximum weight, such that the longest trajectory's
    # mean time is unchanged by the calculation.
    nl_weight = weight / np.sum(weight)

    # we suppress divide by zero errors here, since if we never see a
    # transition, the result of the divide by zero (a NaN) is an
    # acceptable representation of that time.
    with np.errstate(all='ignore'):
        for i in range(n_features):
            mean_times[i] = ((times[:, i] * nl_weight).sum())

    return mean_times


"""Featurizer that converts atomic position trajectories into rotamer trajectories. 
Rotamer classification is done using the CARDS definition of rotamer states. 
For further information see reference. 

References
-------------
.. [1] Sukrit Singh and Gregory R. Bowman, "Quantifying allosteric communication via 
    both concerted structural changes and conformational disorder with CARDS".
    Journal of Chemical Theory and Computation 2017 13 (4), 1509-1517
    DOI: 10.1021/acs.jctc.6b01181 
"""


from __future__ import print_function, division, absolute_import

import logging

from .. import geometry

logger = logging.getLogger(__name__)
logger.setLevel(logging.INFO)


class RotamerFeaturizer(object):
    """Featurizer to convert atomic position trajectories into rotamer
    trajectories.
    """

    __slots__ = ['buffer_width', 'n_procs', 'feature_trajectories_',
                 'n_feature_states_', 'atom_indices_']

    def __init__(self, buffer_width=15, n_procs=1):
        self.buffer_width = buffer_width
        self.n_procs = n_procs

    def fit(self, trajectories):
        """Assign rotameric states to a set of trajectories. Makes
        availiable parameters ``feature_trajectories_``,
        ``n_feature_states_,`` ``atom_indices_``.

        Parameters
        ----------
        trajectories: iterable, shape = n_trjs * (n_frames, n_features)
            Trajectories to consider for the calculation. Generators are
            accepted and can be used to mitigate memory usage.

        References
        -------------
        .. [1] Sukrit Singh and Gregory R. Bowman, "Quantifying allosteric communication via 
            both concerted structural changes and conformational disorder with CARDS".
            Journal of Chemical Theory and Computation 2017 13 (4), 1509-1517
            DOI: 10.1021/acs.jctc.6b01181 
        """

        # to support both lists and generators, we use an iterator over
        # trajectories, so we have a consistent API.
        trj_iter = iter(trajectories)

        # we need the first trajectory so we can call all_rotamers and get
        # atom_inds and rotamer_n_states
        first_trj = next(trj_iter)
        rotamer_trj, atom_inds, rotamer_n_states = geometry.all_rotamers(
            first_trj, buffer_width=self.buffer_width)
        logger.info("Loaded dihedrals assignments and indices.")
        logger.info("Now loading trajectories.")

        # build the list of all of the rotamerized trajectories, starting
        # with the one we just calculated above.
        rotamer_trajs = [rotamer_trj]
        rotamer_trajs.extend(
            [geometry.all_rotamers(t, buffer_width=self.buffer_width)[0]
             for t in trj_iter])
        logger.info("Loaded all rotamer states.")

        self.feature_trajectories_ = rotamer_trajs
        self.n_feature_states_ = rotamer_n_states
        self.atom_indices_ = atom_inds

"""Functions and objects for Correlation of All Rotameric and Dynamical States.
"""

from .cards import *
from .disorder import *

import logging

import gc
import glob
import mdtraj as md
import numpy as np
import os
import time
import subprocess as sp
from multiprocessing import Pool


def _save_states(centers_info):
    states = centers_info['state']
    confs = centers_info['conf']
    frames = centers_info['frame']
    traj_filename = centers_info['trj_filename'][0]
    output_directory = centers_info['output'][0]
    topology = centers_info['topology'][0]
    traj = md.load(traj_filename, top=topology)
    for num in range(len(states)):
        pdb_filename = "{dir}State{state}-{conf}.pdb".format(
            dir=output_directory, state=states[num], conf=confs[num])
        center = traj[frames[num]]
        center.save_pdb(pdb_filename)


def unique_states(assignments):
    '''
    Search assignments array and return a list of the state ids within.
    '''

    state_nums = np.unique(assignments)
    state_nums = state_nums[np.where(state_nums != -1)]
    return state_nums


def save_states(
        assignments, distances, state_nums=None,
        traj_filenames='./Trajectories/*.xtc',
        output_directory='./PDBs/', topology='prot_masses.pdb',
        largest_center=np.inf, n_confs=1, n_processes=1, verbose=True):
    '''
    Saves specified state-numbers by searching through the assignments and
    distances. Can specify a largest distance to a cluster center to save
    computational time searching for min distances. If multiple conformations
    are saved, the center is saved as conf-0 and the rest are random
    conformations.
    '''

    t0 = time.time()
    if state_nums is None:
        state_nums = unique_states(assignments)

    # Get full pathway to input and output directories and ensure that they
    # exist
    if type(traj_filenames) == str:
        traj_filenames = np.array(
            [os.path.abspath(trj) for trj in glob.glob(traj_filenames)])
    output_directory = os.path.abspath(output_directory)+"/"
    if not os.path.exists(output_directory):
        sp.check_call(["mkdir", output_directory])
    # reduce the number of conformations to search through
    reduced_iis = np.where((distances>-0.1)*(distances < largest_center))
    reduced_assignments = assignments[reduced_iis]
    reduced_distances = distances[reduced_iis]
    centers_location = []
    for state in state_nums:
        state_iis = np.where(reduced_assignments == state)
        nconfs_in_state = len(state_iis[0])
        if nconfs_in_state >= n_confs:
            center_picks = np.array([0])
            if n_confs > 1:
                center_picks = np.append(
                    center_picks,
                    np.random.choice(
                        range(1, nconfs_in_state), n_confs-1, replace=False))
        else:
            center_picks = np.array([0])
            center_picks = np.append(
                center_picks, np.random.choice(nconfs_in_state, n_confs - 1))
        state_centers = np.argsort(reduced_distances[state_iis])[center_picks]
        # Obtain information on conformation locations within trajectories
        traj_locations = reduced_iis[0][state_iis[0][state_centers]]
        frame_nums = reduced_iis[1][state_iis[0][state_centers]]
        for conf_num in range(n_confs):
            traj_num = traj_locations[conf_num]
            centers_location.append(
                (
                    state, conf_num, traj_num,
                    frame_nums[conf_num], traj_filenames[traj_num],
                    output_directory, topology))
    if type(topology) == str:
        centers_location = np.array(
            centers_location, dtype=[
                ('state', 'int'), ('conf', 'int'), ('traj_num', 'int'),
                ('frame', 'int'), ('trj_filename', np.str_, 500),
                ('output', np.str_, 500),
                ('topology', np.str_, 500)])
    else:
        centers_location = np.array(
            centers_location, dtype=[
                ('state', 'int'), ('conf', 'int'), ('traj_num', 'int'),
                ('frame', 'int'), ('trj_filename', np.str_, 500),
                ('output', np.str_, 500),
                ('topology', type(topology))])
    unique_trajs = np.unique(centers_location['traj_num'])
    partitioned_centers_info = []
    for traj in unique_trajs:
        partitioned_centers_info.append(
            centers_location[np.where(centers_location['traj_num'] == traj)])

    logging.debug("  Saving states!")

    pool = Pool(processes=n_processes)
    pool.map(_save_states, partitioned_centers_info)
    pool.terminate()
    gc.collect()

    t1 = time.time()
    logging.debug("    Finished in "+str(t1-t0)+" sec")

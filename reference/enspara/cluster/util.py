# Authors: Maxwell I. Zimmerman <mizimmer@wustl.edu>,
#          Gregory R. Bowman <gregoryrbowman@gmail.com>,
#          Justin R. Porter <justinrporter@gmail.com>
# Contributors:
# Copyright (c) 2016, Washington University in St. Louis
# All rights reserved.
# Unauthorized copying of this file, via any medium is strictly prohibited
# Proprietary and confidential

import logging
from collections import namedtuple
from glob import glob
import os
import json
from enspara.util.log import timed
from enspara.util.parallel import auto_nprocs
from enspara import mpi
import itertools
import pickle
import time
from joblib import Parallel, delayed
import psutil
from functools import partial
import resource


import mdtraj as md
import numpy as np

from ..geometry.libdist import euclidean, manhattan

from enspara.util.load import (concatenate_trjs, sound_trajectory,
                               load_as_concatenated)

from  enspara.exception import ImproperlyConfigured, DataInvalid
from ..ra.ra import partition_list, partition_indices
from enspara import ra

logger = logging.getLogger(__name__)

msmbuilder_libdistance_metrics = ["euclidean", "sqeuclidean", "cityblock",
                                  "chebyshev", "canberra", "braycurtis",
                                  "hamming", "jaccard"]


class MolecularClusterMixin:
    """Additional logic for clusterers in enspara that cluster molecular
    trajectories.
    """

    def predict(self, X):
        """Use an existing clustring fit to predict the assignments,
        distances, and center indices of on new data.new

        See also: assign_to_nearest_center()

        Parameters
        ----------
        X : array-like, shape=(n_states, n_features)
            New data to predict.

        Returns
        -------
        result : ClusterResult
            The result of assigning the given data to the pretrained
            centers.
        """

        if not hasattr(self, 'result_'):
            raise ImproperlyConfigured(
                "To predict the clustering result for new data, the "
                "clusterer first must have fit some data.")

        pred_assigs, pred_dists = assign_to_nearest_center(
            trajectory=X,
            cluster_centers=self.centers_,
            distance_method=self.metric)
        pred_centers = find_cluster_centers(pred_assigs, pred_dists)

        result = ClusterResult(
            assignments=pred_assigs,
            distances=pred_dists,
            center_indices=pred_centers,
            centers=self.centers_)

        return result

    @property
    def labels_(self):
        return self.result_.assignments

    @property
    def distances_(self):
        return self.result_.distances

    @property
    def center_indices_(self):
        return self.result_.center_indices

    @property
    def centers_(self):
        return self.result_.centers


class ClusterResult(namedtuple('ClusterResult',
                               ['center_indices',
                                'distances',
                                'assignments',
                                'centers'])):

    def partition(self, lengths):
        """Split each array in this ClusterResult into multiple
        subarrays of variable length.

        Parameters
        ----------
        lengths : array, shape=(n_subarrays)
            Length of each individual subarray.

        Returns
        -------
        result : ClusterResult
            ClusterResult object containing partitioned arrays.
            Assignments and distances are np.ndarrays if each row is the
            same length, and ra.RaggedArrays if trajectories differ.

        See Also
        --------
        partition_indices : for converting lists of concatenated-array
            indices into lists of partitioned-array indices.
        partition_list : for converting concatenated arrays into
            partitioned arrays
        """

        square = all(lengths[0] == l for l in lengths)

        if square:
            logger.debug(
                'Lengths are homogenous (%s); using numpy arrays '
                'as output to partitioning.', lengths[0])
            return ClusterResult(
                assignments=np.array(partition_list(self.assignments,
                                                    lengths)),
                distances=np.array(partition_list(self.distances, lengths)),
                center_indices=partition_indices(self.center_indices, lengths),
                centers=self.centers)
        else:
            logger.debug(
                'Lengths are nonhomogenous (median=%d, min=%d, max=%d); '
                'using RaggedArray as output to partitioning.',
                np.median(lengths), np.min(lengths), np.max(lengths))
            return ClusterResult(
                assignments=ra.RaggedArray(self.assignments, lengths=lengths),
                distances=ra.RaggedArray(self.distances, lengths=lengths),
                center_indices=partition_indices(self.center_indices, lengths),
                centers=self.centers)


def assign_to_nearest_center(trajectory, cluster_centers, distance_method):
    """Assign each frame from trajectory to one of the given cluster centers
    using the given distance metric.

    Parameters
    ----------
    trajectory: md.Trajectory or ndarray, shape=(n_frames, n_features, ...)
        The frames to assign to a cluster_center. This parameter need
        only implement `__len__` and  be accepted by `distance_method`.
    cluster_centers : iterable
        Iterable containing some number of exemplar data that each datum
        in `trajectory` can be compared to using distance_method.
    distance_method: function, params=(trajectory, cluster_centers[i])
        The distance method to use for assigning each observation in
        trajectorys to one of the cluster_centers. Must take the entire
        trajectory and one item from cluster_centers as parameters.

    Returns
    ----------
    assignments : ndarray, shape=(n_frames,)
        The assignment of each frame in `trajectory` to a frame in
        cluster_centers.
    distances : ndarray, shape=(n_frames,)
        The distance between each frame in `trajectory` and its assigned
        frame in cluster_centers.
    """

    assignments = np.zeros(len(trajectory), dtype=int)
    distances = np.empty(len(trajectory), dtype=float)
    distances.fill(np.inf)

    # if there are more cluster_centers than trajectory, significant
    # performance benefit can be realized by computing each frame's
    # distance to ALL cluster centers, rather than the reverse.
    if len(cluster_centers) > len(trajectory) and hasattr(cluster_centers, 'xyz'):
        for i, frame in enumerate(trajectory):
            dist = distance_method(cluster_centers, frame)
            assignments[i] = np.argmin(dist)
            distances[i] = np.min(dist)
    else:
        for i, center in enumerate(cluster_centers):
            dist = distance_method(trajectory, center)
            inds = (dist < distances)
            distances[inds] = dist[inds]
            assignments[inds] = i

    return assignments, distances


def find_cluster_centers(assignments, distances):
    """Given a list of distances and assignments, find the
    lowest-distance frame to each label in assignments.

    Parameters
    ----------
    distances: array-like, shape=(n_frames,)
        The distance of each observation to the cluster center.
    assignments : array-like, shape=(n_frames,)
        The assignment of each observation to a cluster.

    Returns
    ----------
    cluster_center_indices : array, shape=(n_labels,)
        A tuple containing the assignment of each observation to a
        center (assignments), the distance to that center (distances),
        and a list of observations that are closest to a given center
        (cluster_center_indices.)
    """

    if len(distances) != len(assignments):
        raise DataInvalid(
            "Length of distances (%s) must match length of assignments "
            "(%s)." % (len(distances), len(assignments)))

    unique_centers = np.unique(assignments)
    center_inds = np.zeros(len(unique_centers), dtype=int)

    for i, c in enumerate(unique_centers):
        assigned_frames = np.where(assignments == c)[0]
        ind = assigned_frames[np.argmin(distances[assigned_frames])]

        center_inds[i] = ind

    return center_inds


def load_frames(filenames, indices, **kwargs):
    """Load specific frame indices from a list of trajectory files.

    Given a list of trajectory file names (`filenames`) and tuples
    indicating trajectory number and frame number (`indices`), load the
    given frames into a list of md.Trajectory objects. All additional
    kwargs are passed on to md.load_frame.

    Parameters
    ----------
    indices: list, shape=(n_frames, 2)
        List of 2d coordinates, indicating filename to load from and
        which frame to load.
    filenames: list, shape=(n_files)
        List of files to load frames from. The first position in indices
        is taken to refer to a position in this list.
    stride: int
        Treat the indices as having been computed using a stride, so
        mulitply the second index (frame number) by this number (e.g.
        for stride 10, [2, 3] becomes [2, 30]).

    Returns
    ----------
    centers: list
        List of loaded trajectories.
    """

    stride = kwargs.pop('stride', 1)
    if stride is None:
        stride = 1

    centers = []
    for i, j in indices:
        try:
            c = md.load_frame(filenames[i], index=j*stride, **kwargs)
        except ValueError:
            raise ImproperlyConfigured(
                'Failed to load frame {fr} of {fn} using args {kw}.'.format(
                    fn=filenames[i], fr=j*stride, kw=kwargs))
        centers.append(c)

    return centers


def _get_distance_method(metric):
    if metric == 'rmsd':
        return md.rmsd
    if metric == 'euclidean':
        return euclidean
    elif metric in ['cityblock', 'manhattan']:
        return manhattan
    elif metric in msmbuilder_libdistance_metrics:
        try:
            import msmbuilder.libdistance as libdistance
        except ImportError:
            raise ImproperlyConfigured(
                "Enspara needs the optional MSMBuilder dependency installed " +
                "to use '{}' as a clustering metric.".format(metric) +
                "It uses MSMBuilder3's libdistance, but we weren't able to " +
                "import msmbuilder.libdistance.")

        def f(X, Y):
            return libdistance.dist(X, Y, metric)
        return f
    elif callable(metric):
        return metric
    else:
        raise ImproperlyConfigured(
            "'{}' is not a recognized metric".format(metric))

def expand_files(pgroups):
    expanded_pgroups = []
    for pgroup in pgroups:
        expanded_pgroups.append([])
        for p in pgroup:
            expanded_pgroups[-1].extend(sorted(glob(p)))
    return expanded_pgroups


def load_features(features, stride):
    try:
        if len(features) == 1:
            with timed("Loading features took %.1f s.", logger.info):
                lengths, data = mpi.io.load_h5_as_striped(features[0], stride)

        else:  # and len(features) > 1
            with timed("Loading features took %.1f s.", logger.info):
                lengths, data = mpi.io.load_npy_as_striped(features, stride)

        with timed("Turned over array in %.2f min", logger.info):
            tmp_data = data.copy()
            del data
            data = tmp_data
    except MemoryError:
        logger.error(
            "Ran out of memory trying to allocate features array"
            " from file %s", features[0])
        raise

    logger.info("Loaded %s trajectories with %s frames with stride %s.",
                len(lengths), len(data), stride)

    return lengths, data


def load_trajectories(topologies, trajectories, selections, stride, processes):

    for top, selection in zip(topologies, selections):
        sentinel_trj = md.load(top)
        try:
            # noop, but causes fast-fail w/bad args.atoms
            sentinel_trj.top.select(selection)
        except:
            raise ImproperlyConfigured((
                "The provided selection '{s}' didn't match the topology "
                "file, {t}").format(s=selection, t=top))

    flat_trjs = []
    configs = []
    n_inds = None

    for topfile, trjset, selection in zip(topologies, trajectories,
                                          selections):
        top = md.load(topfile).top
        indices = top.select(selection)

        if n_inds is not None:
            if n_inds != len(indices):
                raise ImproperlyConfigured(
                    ("Selection on topology %s selected %s atoms, but "
                     "other selections selected %s atoms.") %
                    (topfile, len(indices), n_inds))
        n_inds = len(indices)

        for trj in trjset:
            flat_trjs.append(trj)
            configs.append({
                'top': top,
                'stride': stride,
                'atom_indices': indices,
            })

    logger.info(
        "Loading %s trajectories with %s atoms using %s processes "
        "(subsampling %s)",
        len(flat_trjs), len(top.select(selection)), processes, stride)
    assert len(top.select(selection)) > 0, "No atoms selected for clustering"

    with timed("Loading took %.1f sec", logger.info):
        lengths, xyz = mpi.io.load_trajectory_as_striped(
            flat_trjs, args=configs, processes=auto_nprocs())

    with timed("Turned over array in %.2f min", logger.info):
        tmp_xyz = xyz.copy()
        del xyz
        xyz = tmp_xyz

    logger.info("Loaded %s frames.", len(xyz))

    return lengths, xyz, top.subset(top.select(selection))


def load_asymm_frames(center_indices, trajectories, topology, subsample):

    frames = []
    begin_index = 0
    for topfile, trjset in zip(topology, trajectories):
        end_index = begin_index + len(trjset)
        target_centers = [c for c in center_indices
                          if begin_index <= c[0] < end_index]

        try:
            subframes = load_frames(
                list(itertools.chain(*trajectories)),
                target_centers,
                top=md.load(topfile).top,
                stride=subsample)
        except ImproperlyConfigured:
            logger.error('Failure to load cluster centers %s for topology %s',
                         topfile, target_centers)
            raise

        frames.extend(subframes)
        begin_index += len(trjset)

    return frames


def load_trjs_or_features(args):

    if args.features:
        with timed("Loading features took %.1f s.", logger.info):
            lengths, data = load_features(args.features, stride=args.subsample)
    else:
        assert args.trajectories
        assert len(args.trajectories) == len(args.topologies)

        targets = {os.path.basename(topf): "%s files" % len(trjfs)
                   for topf, trjfs
                   in zip(args.topologies, args.trajectories)
                   }
        logger.info("Beginning clustering; targets:\n%s",
                    json.dumps(targets, indent=4))

        with timed("Loading trajectories took %.1f s.", logger.info):
            lengths, xyz, select_top = load_trajectories(
                args.topologies, args.trajectories, selections=args.atoms,
                stride=args.subsample, processes=auto_nprocs())

        logger.info("Clustering using %s atoms matching '%s'.", xyz.shape[1],
                    args.atoms)

        # md.rmsd requires an md.Trajectory object, so wrap `xyz` in
        # the topology.
        data = md.Trajectory(xyz=xyz, topology=select_top)

    return lengths, data


def write_centers_indices(path, indices, intermediate_n=None):
    if path:
        if intermediate_n is not None:
            indcs_dir = os.path.dirname(path)
            incs_feats = f'{indcs_dir}/intermediate-{intermediate_n}/{os.path.basename(path)}'
            os.makedirs(f'{indcs_dir}/intermediate-{intermediate_n}', exist_ok=True)
            with open(incs_feats, 'wb') as f:
                np.save(f, indices)

        else:
            with open(path, 'wb') as f:
                np.save(f, indices)
    else:
        logger.info("--center-indices not provided, not writing center "
                    "indices to file.")


def write_centers(result, args, intermediate_n=None):
    if args.features:
        if intermediate_n is not None:
            centers_dir = os.path.dirname(args.center_features)
            int_feats = f'{centers_dir}/intermediate-{intermediate_n}/{os.path.basename(args.center_features)}'
            os.makedirs(f'{centers_dir}/intermediate-{intermediate_n}', exist_ok=True)
            ra.save(int_feats, result.centers)

        else:
            np.save(args.center_features, result.centers)

    else:
        if intermediate_n is not None:
            centers_dir = os.path.dirname(args.center_features)
            outdir = f'{centers_dir}/intermediate-{intermediate_n}/'

        else:
            outdir = os.path.dirname(args.center_features)

        logger.info("Saving cluster centers at %s", outdir)

        os.makedirs(outdir, exist_ok=True)


        centers = load_asymm_frames(result.center_indices, args.trajectories,
                                    args.topologies, args.subsample)
        with open(args.center_features, 'wb') as f:
            pickle.dump(centers, f)


def write_assignments_and_distances_with_reassign(result, args, intermediate_n=None):
    if args.subsample == 1:
        logger.debug("Subsampling was 1, not reassigning.")
        if intermediate_n is not None:
            dists_dir = os.path.dirname(args.distances)
            int_dists = f'{dists_dir}/intermediate-{intermediate_n}/{os.path.basename(args.distances)}'
            os.makedirs(f'{dists_dir}/intermediate-{intermediate_n}', exist_ok=True)
            ra.save(int_dists, result.distances)

            assigs_dir = os.path.dirname(args.assignments)
            int_assigs = f'{assigs_dir}/intermediate-{intermediate_n}/{os.path.basename(args.assignments)}'
            os.makedirs(f'{assigs_dir}/intermediate-{intermediate_n}',exist_ok=True)            
            ra.save(int_assigs, result.assignments)

        else:
            ra.save(args.distances, result.distances)
            ra.save(args.assignments, result.assignments)

    elif not args.no_reassign:
        logger.debug("Reassigning data from subsampling of %s", args.subsample)
        assig, dist = reassign(
            args.topologies, args.trajectories, args.atoms,
            centers=result.centers)

        if intermediate_n is not None:
            dists_dir = os.path.dirname(args.distances)
            int_dists = f'{dists_dir}/intermediate-{intermediate_n}/{os.path.basename(args.distances)}'
            os.makedirs(f'{dists_dir}/intermediate-{intermediate_n}', exist_ok=True)
            ra.save(int_dists, dist)

            assigs_dir = os.path.dirname(args.assignments)
            int_assigs = f'{assigs_dir}/intermediate-{intermediate_n}/{os.path.basename(args.assignments)}'
            os.makedirs(f'{assigs_dir}/intermediate-{intermediate_n}')            
            ra.save(int_assigs, assig)

        ra.save(args.distances, dist)
        ra.save(args.assignments, assig)
    else:
        logger.debug("Got --no-reassign, not doing reassigment")

def compute_batches(lengths, batch_size):
    """Compute batches (slices into lengths) of combined length at most
    size batch_size.
    """

    batch_sizes = [[]]
    batch_indices = [[]]
    for i, l in enumerate(lengths):
        if not batch_sizes[-1] or sum(batch_sizes[-1]) + l < batch_size:
            batch_sizes[-1].append(l)
            batch_indices[-1].append(i)
        else:
            batch_sizes.append([l])
            batch_indices.append([i])

    return batch_indices


def determine_batch_size(n_atoms, dtype_bytes, frac_mem):
    floats_per_frame = n_atoms * 3
    bytes_per_frame = floats_per_frame * dtype_bytes

    mem = psutil.virtual_memory()
    bytes_total = mem.total

    batch_size = int(bytes_total * frac_mem / bytes_per_frame)
    batch_gb = batch_size * bytes_per_frame / (1024**3)

    return batch_size, batch_gb


def batch_reassign(targets, centers, lengths, frac_mem, n_procs=None):

    example_center = centers[0]

    DTYPE_BYTES = 4
    batch_size, batch_gb = determine_batch_size(
        example_center.n_atoms, DTYPE_BYTES, frac_mem)

    logger.info(
        'Batch max size set to %s frames (~%.2f GB, %.1f%% of total RAM).' %
        (batch_size, batch_gb, frac_mem*100))

    if batch_size < max(lengths):
        raise ImproperlyConfigured(
            'Batch size of %s was smaller than largest file (size %s).' %
            (batch_size, max(lengths)))

    batches = compute_batches(lengths, batch_size)

    assignments = []
    distances = []

    for i, batch_indices in enumerate(batches):
        tick = time.perf_counter()
        logger.info("Starting batch %s of %s", i+1, len(batches))
        batch_targets = [targets[i] for i in batch_indices]

        with timed("Loaded frames for batch in %.1f seconds", logger.info):
            batch_lengths, xyz = load_as_concatenated(
                [tfile for tfile, top, aids in batch_targets],
                lengths=[lengths[i] for i in batch_indices],
                args=[{'top': top, 'atom_indices': aids}
                      for t, top, aids in batch_targets],
                processes=n_procs)

        # mdtraj loads as float32, and load_as_concatenated should thus
        # also load as float32. This should _never_ be hit, but there might be
        # some platform-specific situation where double != float64?
        assert xyz.dtype.itemsize == DTYPE_BYTES

        trj = md.Trajectory(xyz, topology=example_center.top)

        with timed("Precentered trajectories in %.1f seconds", logger.debug):
            trj.center_coordinates()

        with timed("Assigned trajectories in %.1f seconds", logger.debug):
            batch_assignments, batch_distances = assign_to_nearest_center(
                    trj, centers, partial(md.rmsd, precentered=True))

        # clear memory of xyz and trj to allow cleanup to deallocate
        # these large arrays; may help with memory high-water mark
        with timed("Cleared array from memory in %.1f seconds", logger.debug):
            xyz_size = xyz.size
            del trj, xyz

        assignments.extend(partition_list(batch_assignments, batch_lengths))
        distances.extend(partition_list(batch_distances, batch_lengths))

        logger.info(
            "Finished batch %s of %s in %.1f seconds. Coordinates array had "
            "memory footprint of %.2f GB (of memory high-water mark %.2f/%.2f "
            "GB).",
            i, len(batches), time.perf_counter() - tick,
            xyz_size * DTYPE_BYTES / 1024**3,
            resource.getrusage(resource.RUSAGE_SELF).ru_maxrss / 1024**2,
            psutil.virtual_memory().total / 1024**3)

    return assignments, distances


def reassign(topologies, trajectories, atoms, centers, frac_mem=0.5):
    """Reassign a set of trajectories based on a subset of atoms and centers.

    Parameters
    ----------
    topologies : list
        List of topologies corresponding to the trajectories to be
        reassigned.
    trajectories : list of lists
        List of lists of tajectories to be loaded in batches and
        reassigned.
    atoms : list
        List of MDTraj atom query strings. Each string is applied to the
        corresponding topology to choose which atoms will be used for
        the reassignment.
    centers : md.Trajectory or list of trajectories
        The atoms representing the centers to reassign to.
    frac_mem : float, default=0.5
        The fraction of main RAM to use for trajectories. A lower number
        will mean more batches.
    """

    n_procs = auto_nprocs()

    # check input validity
    if len(topologies) != len(trajectories):
        raise ImproperlyConfigured(
            "Number of topologies (%s) didn't match number of sets of "
            "trajectories (%s)." % (len(topologies), len(trajectories)))
    if len(topologies) != len(atoms):
        raise ImproperlyConfigured(
            "Number of topologies (%s) didn't match number of atom selection "
            "strings (%s)." % (len(topologies), len(atoms)))

    # iteration across md.Trajectory is insanely slow. Do it only once here.
    if isinstance(centers, md.Trajectory):
        tick = time.perf_counter()
        logger.info('Centers are an md.Trajectory. Creating trj-list to '
                    'avoid repeated iteration.')
        # using in-place copies to reduce memory usage (and for speed)
        centers = [centers.slice(i, copy=False) for i in range(len(centers))]
        logger.info('Built trj list in %.1f seconds.',
                    time.perf_counter() - tick)

    # precenter centers (there will be many RMSD calcs here)
    for c in centers:
        c.center_coordinates()

    with timed("Reassignment took %.1f seconds.", logger.info):
        # build flat list of targets
        targets = []
        for topfile, trjfiles, atoms in zip(topologies, trajectories, atoms):
            t = md.load(topfile).top
            atom_ids = t.select(atoms)
            for trjfile in trjfiles:
                assert os.path.exists(trjfile)
                targets.append((trjfile, t, atom_ids))

        # determine trajectory length
        tick_sounding = time.perf_counter()
        logger.info("Sounding dataset of %s trajectories and %s topologies.",
                    sum(len(t) for t in trajectories), len(topologies))

        lengths = Parallel(n_jobs=n_procs)(
            delayed(sound_trajectory)(f) for f, _, _ in targets)

        logger.info("Sounded %s trajectories with %s frames (median length "
                    "%i frames) in %.1f seconds.",
                    len(lengths), sum(lengths), np.median(lengths),
                    time.perf_counter() - tick_sounding)

        assignments, distances = batch_reassign(
            targets, centers, lengths, frac_mem=frac_mem, n_procs=n_procs)

    if all([len(assignments[0]) == len(a) for a in assignments]):
        logger.info("Trajectory lengths are homogenous. Output will "
                    "be np.ndarrays.")
        assert all([len(distances[0]) == len(d) for d in distances])
        return np.array(assignments), np.array(distances)
    else:
        logger.info("Trajectory lengths are heterogenous. Output will "
                    "be ra.RaggedArrays.")
        return ra.RaggedArray(assignments), ra.RaggedArray(distances)

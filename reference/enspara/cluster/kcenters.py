import time
import logging

import numpy as np

from sklearn.base import BaseEstimator, ClusterMixin
from sklearn.utils import check_random_state

from ..util import log
from ..exception import ImproperlyConfigured
from .. import mpi

from . import util

logger = logging.getLogger(__name__)


class KCenters(BaseEstimator, ClusterMixin, util.MolecularClusterMixin):
    """Sklearn-style object for kcenters clustering.

    K-centers is essentially an outlier detection algorithm. It
    iteratively searches out the point that is most distant from all
    existing cluster centers, and adds it as a new cluster centers.
    Its worst-case runtime is O(kn), where k is the number of cluster
    centers and n is the number of observations.

    The original algorithm and optimality guarantees are described in
    [1]_.

    Parameters
    ----------
    metric : required
        Distance metric used while comparing data points.
    n_clusters : int, default=None
        The number of clusters to build using kcenters. When none,
        only `cluster_radius` is used.
    cluster_radius : float, default=None
        The minimum maximum cluster-datum distance to use in when
        adding cluster centers in the kcenters step. When `None`,
        only `n_clusters` is used.
    random_first_center : bool, default=False
        Choose a random center as the first center, rather than
        choosing the zeroth element (default)
    random_state : int or np.RandomState
        Random state to use to seed the random number generator.
    mpi_mode : bool, default=None
        Use the MPI version of the algorithm. This assumes that each node
        in the MPI swarm owns its own data. If None, it is determined
        automatically.

    References
    ----------
    .. [1] Gonzalez, T. F. Clustering to minimize the maximum
        intercluster distance. Theoretical Computer Science 38, 293–306
        (1985).
    """

    def __init__(
            self, metric, n_clusters=None, cluster_radius=None,
            random_first_center=False, random_state=None, mpi_mode=None):

        if n_clusters is None and cluster_radius is None:
            raise ImproperlyConfigured("Either n_clusters or cluster_radius "
                                       "is required for KHybrid clustering")

        self.metric = util._get_distance_method(metric)

        self.n_clusters = n_clusters
        self.cluster_radius = cluster_radius
        self.random_first_center = random_first_center

        self.random_state = check_random_state(random_state)
        self.mpi_mode = mpi.size() != 1 if mpi_mode is None else mpi_mode

    def fit(self, X, init_centers=None):
        """Takes trajectories, X, and performs KCenters clustering.
        Optionally continues clustering from an initial set of cluster
        centers.

        Parameters
        ----------
        X : array-like, shape=(n_observations, n_features(, n_atoms))
            Data to cluster.
        init_centers : array-like, shape=(n_centers, n_features(, n_atoms))
            Begin clustring with these centers as cluster centers.
        """

        t0 = time.perf_counter()

        self.result_ = kcenters(
            X,
            distance_method=self.metric,
            n_clusters=self.n_clusters,
            dist_cutoff=self.cluster_radius,
            init_centers=init_centers,
            random_first_center=self.random_first_center,
            mpi_mode=self.mpi_mode)

        self.runtime_ = time.perf_counter() - t0
        return self


def kcenters_mpi(*args, **kwargs):
    kwargs.pop('mpi_mode', None)
    return kcenters(*args, mpi_mode=True, **kwargs)


def kcenters(traj, distance_method, n_clusters=np.inf, dist_cutoff=0,
             init_centers=None, random_first_center=False,
             use_triangle_inequality=False, mpi_mode=False):
    """Function implementation of the k-centers clustering algorithm.

    K-centers is essentially an outlier detection algorithm. It
    iteratively searches out the point that is most distant from all
    existing cluster centers, and adds it as a new cluster centers.
    Its worst-case runtime is O(kn), where k is the number of cluster
    centers and n is the number of observations.

    This method can be used in MPI mode, where `traj` is assumed to be
    only a subset of the data in a SIMD execution environment. As a
    consequence, some inter-process communication is required. The user
    is responsible for partitioning the data in `traj` appropriately
    across the workers and for assembling the results correctly.

    The original algorithm and optimality guarantees are described in
    [2]_.

    Parameters
    ----------
    traj : array-like
        The data to cluster with kcenters.
    distance_method : callable
        A callable that takes two arguments: an array of shape
        `traj.shape` and and array of shape `traj.shape[1:]`, and
        returns an array of shape `traj.shape[0]`, representing the
        'distance' between each element of the `traj` and a proposed
        cluster center.
    n_clusters : int (default=np.inf)
        Stop finding new cluster centers when the number of clusters
        reaches this value.
    dist_cutoff : float (default=0)
        Stop finding new cluster centers when the maximum minimum
        distance between any point and a cluster center reaches this
        value.
    init_centers : array-like, shape=(n_centers, n_features)
        A list of observations to use as the first `n_centers`
        centers before discovering new centers with the kcenters
        algorithm.
    random_first_center : bool, default=False
        When false, center 0 is always frame 0. If True, this value
        is chosen randomly.
    use_triangle_inequality : bool, default=False
        Use the fact that the the new center's current distance must be
        greater than half than its nearest intercluster distance to avoid
        recomputing some distances. This optimization was developed in
        ref [3]_.

    Returns
    -------
    result : ClusterResult
        Subclass of NamedTuple containing assignments, distances,
        and center indices for this function. In MPI mode, distances
        and assignments are partitioned by node, and center indices
        take the form (node, index). In regular mode, distances and
        assignments are for all frames and center indices are just
        positions.

    References
    ----------
    .. [2] Gonzalez, T. F. Clustering to minimize the maximum intercluster
        distance. Theoretical Computer Science 38, 293–306 (1985).
    .. [3] Zhao, Y., Sheong, F. K., Sun, J., Sander, P. & Huang, X. A fast
        parallel clustering algorithm for molecular simulation trajectories.
        J. Comput. Chem. 34, 95–104 (2013).
    """

    if (n_clusters is np.inf) and (dist_cutoff == 0):
            raise ImproperlyConfigured("Either n_clusters or cluster_radius "
                                       "is required for KHybrid clustering")

    distance_method = util._get_distance_method(distance_method)

    if n_clusters is None and dist_cutoff is None:
        raise ImproperlyConfigured(
            "KCenters must specify 'n_clusters' or 'distance_cutoff'")
    elif n_clusters is None and dist_cutoff is not None:
        n_clusters = np.inf
    elif n_clusters is not None and dist_cutoff is None:
        dist_cutoff = 0

    if random_first_center:
        raise NotImplementedError(
            "We haven't implemented kcenters 'random_first_center' yet.")

    if init_centers is None:
        ctr_inds = []
        centers = []
        assignments = np.full(len(traj), -1, dtype=int)
        distances = np.full(len(traj), np.inf, dtype=float)
    else:
        centers = [c for c in init_centers]
        logger.info("Updating assignments to previous cluster centers")
        assignments, distances = util.assign_to_nearest_center(
            traj, centers, distance_method)
        ctr_inds = list(
            util.find_cluster_centers(assignments, distances))

    if mpi_mode:
        iteration = _kcenters_iteration_mpi
        kwargs = {'centers': centers}
    else:
        iteration = _kcenters_iteration
        kwargs = {'centers': centers}

    maxdist = (mpi.ops.striped_array_max(distances) if mpi_mode
               else distances.max())
    while (len(ctr_inds) < n_clusters) and (maxdist > dist_cutoff):

        new_center, distances, assignments, center_inds = \
            iteration(traj, distance_method, distances, assignments, ctr_inds,
                      use_triangle_inequality=use_triangle_inequality,
                      **kwargs)

        centers.append(new_center)
        maxdist = (mpi.ops.striped_array_max(distances) if mpi_mode
                   else distances.max())

        if mpi.rank() == 0:
            logger.info(
                "Center %s gives max dist of %.6f (stopping @ d=%.6f/n=%s).",
                len(center_inds), maxdist, dist_cutoff, n_clusters)

    logger.info("Terminated k-centers with n=%s and d=%0.6f.",
                len(ctr_inds), maxdist,)

    return util.ClusterResult(
        center_indices=ctr_inds,
        assignments=assignments,
        distances=distances,
        centers=centers)


def _kcenters_iteration(
        traj, distance_method, distances, assignments, center_inds,
        use_triangle_inequality=False, centers=None):
    """Core inner loop for kcenters centers discovery.

    Parameters
    ----------
    traj : md.Trajectory or np.ndarray
        The data to cluster with kcenters.
    distance_method : callable(X, y)
        Distance function to use to compute distances between a dataset
        (X) and a single point (y)
    distances : np.ndarray
        The current distance between each point and its nearest cluster
        center
    assignments : np.ndarray
        The assignment of each point to a cluster center.
    center_inds : list
        The position of each center in ``traj``.
    centers : list, default=None
        The centers themselves. After a warm start they need not be
        frames of ``traj``; if None, ``traj[center_inds]`` is used.

    Returns
    -------
    new_center : np.ndarray or md.Trajectory
        Data representing the new center chosen by this iteration of kcenters
    distances : np.ndarray
        Distances between each point and its nearest center, after the
        inclusion of ``new_center``
    assignments : np.ndarray
        Assignment of each poitn to its nearest center, after the inclusion
        of ``new_center``
    center_inds : list
        The location of each center (including ``new_center``) in the
        dataset.
    """

    assert len(traj) == len(distances)
    assert len(traj) == len(assignments)
    assert np.issubdtype(type(assignments[0]), np.integer)

    new_center_index = np.argmax(distances)
    new_center = traj[new_center_index]

    logger.debug("Chose frame %s as new center", new_center_index)

    if use_triangle_inequality and np.all(assignments >= 0):
        if centers is None:
            cc_dists = distance_method(traj[center_inds], new_center)
        elif hasattr(centers[0], 'xyz'):
            cc_dists = np.array([distance_method(c, new_center).squeeze()
                                 for c in centers])
        else:
            cc_dists = distance_method(np.array(centers), new_center)
        recompute_dists = distances > (cc_dists[assignments] / 2)

        logger.debug("Recomputing %s of %s distances",
                     np.count_nonzero(recompute_dists), len(recompute_dists))

        dist = distances.copy()
        dist[recompute_dists] = distance_method(
            traj[recompute_dists], new_center)
    else:
        dist = distance_method(traj, new_center)

    # scipy distance metrics return shape (n, 1) instead of (n), which
    # causes breakage here.
    assert len(dist.shape) == len(distances.shape)

    inds = (dist < distances)
    distances[inds] = dist[inds]
    assignments[inds] = len(center_inds)

    center_inds.append(new_center_index)
    new_center_index = np.argmax(distances)

    return new_center, distances, assignments, center_inds


def _kcenters_iteration_mpi(
        traj, distance_method, distances, assignments, center_inds,
        centers, use_triangle_inequality=False):
    """The core inner loop of the kcenters iteration protocol. This can
    be used to start and stop doing kcenters (for example to save
    frequently or do checkpointing).
    """

    assert len(traj) == len(distances)
    assert len(traj) == len(assignments)
    assert np.issubdtype(type(assignments[0]), np.integer)

    if len(center_inds) == 0:
        new_cluster_center_index = 0
        new_cluster_center_owner = 0
    else:
        with log.timed("Gathered distances in %.2f sec", logger.debug):
            # this could likely be accomplished with mpi.reduce instead...
            dist_locs = np.array(
                mpi.comm.allgather(np.argmax(distances)))
            dist_vals = np.array(
                mpi.comm.allgather(np.max(distances)))

        new_cluster_center_owner = np.argmax(dist_vals)
        new_cluster_center_index = dist_locs[new_cluster_center_owner]

    logger.debug("Chose frame %s (node %s) as new center",
                 new_cluster_center_index, new_cluster_center_owner)

    with log.timed("Distributed cluster ctr in %.2f sec",
                   log_func=logger.info):
        new_center = mpi.ops.distribute_frame(
            data=traj,
            world_index=new_cluster_center_index,
            owner_rank=new_cluster_center_owner)

    with log.timed("Computed distance in %.2f sec", log_func=logger.info):
        if use_triangle_inequality and np.all(assignments >= 0):
            if hasattr(centers[0], 'xyz'):
                cc_dists = np.array([distance_method(c, new_center).squeeze()
                                     for c in centers])
            else:
                cc_dists = distance_method(np.array(centers), new_center)
            recompute_dists = (distances > (cc_dists[assignments] / 2))
            logger.debug(
                "Recomputing %s of %s distances",
                np.count_nonzero(recompute_dists), len(recompute_dists))

            new_dists = distances.copy()
            new_dists[recompute_dists] = distance_method(
                traj[recompute_dists], new_center)
        else:
            new_dists = distance_method(traj, new_center)

    assert len(distances.shape) == len(new_dists.shape)

    inds = (new_dists < distances)

    distances[inds] = new_dists[inds]
    assignments[inds] = len(center_inds)

    center_inds.append(
        (new_cluster_center_owner, new_cluster_center_index))

    return new_center, distances, assignments, center_inds

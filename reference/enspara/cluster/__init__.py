"""Library code for clustering tasks, including KCenters and KHybrid.
"""

from . import hybrid
from . import kcenters
from . import kmedoids

from .hybrid import KHybrid
from .kcenters import KCenters
from .kmedoids import KMedoids

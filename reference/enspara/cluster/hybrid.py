import time
import logging

import numpy as np

from sklearn.base import BaseEstimator, ClusterMixin
from sklearn.utils import check_random_state

from . import kcenters
from . import kmedoids
from . import util

#Circular import if entering this from cluster.py but need this if not.
try:
    from ..apps.cluster import write_assignments_and_distances_with_reassign, \
    write_centers, write_centers_indices
except:
    pass

from ..util.log import timed

from ..exception import ImproperlyConfigured
from .. import mpi

logger = logging.getLogger(__name__)


class KHybrid(BaseEstimator, ClusterMixin, util.MolecularClusterMixin):
    """Sklearn-style object for khybrid clustering.

    KHybrid clustering uses the k-centers protocol to define cluster
    centers and the kmedoids protocol to refine the clustering.

    Parameters
    ----------
    metric : required
        Distance metric used while comparing data points.
    n_clusters : int, default=None
        The number of clusters to build using kcenters. When none,
        only `cluster_radius` is used.
    cluster_radius : float, default=None
        The minimum maximum cluster-datum distance to use in when
        adding cluster centers in the kcenters step. When `None`,
        only `n_clusters` is used.
    kmedoids_updates : it, default=None
        Number of rounds of kmedoids to run.
    random_first_center : bool, default=False
        Choose a random center as the first center, rather than
        choosing the zeroth element (default)
    random_state : int or np.RandomState
        Random state to use to seed the random number generator.
    mpi_mode : bool, default=None
        Use the MPI version of the algorithm. This assumes that each node
        in the MPI swarm owns its own data. If None, it is determined
        automatically.

    References
    ----------
    .. [1] Beauchamp, K. A. et al. MSMBuilder2: Modeling Conformational
    Dynamics at the Picosecond to Millisecond Scale. J. Chem. Theory
    Comput. 7, 3412–3419 (2011).
    """

    def __init__(self, metric, n_clusters=None, cluster_radius=None,
                 kmedoids_updates=5, random_first_center=False,
                 random_state=None, mpi_mode=None, args=None, lengths=None):

        if n_clusters is None and cluster_radius is None:
            raise ImproperlyConfigured("Either n_clusters or cluster_radius "
                                       "is required for KHybrid clustering")

        self.kmedoids_updates = kmedoids_updates
        self.n_clusters = n_clusters
        self.cluster_radius = cluster_radius
        self.random_first_center = random_first_center

        self.metric = util._get_distance_method(metric)
        self.random_state = random_state
        self.mpi_mode = mpi_mode if mpi_mode is not None else mpi.size() != 1
        self.args = args
        self.lengths = lengths

    def fit(self, X, init_centers=None, args=None):
        """Takes trajectories, X, and performs KHybrid clustering.
        Optionally continues clustering from an initial set of cluster
        centers.

        Parameters
        ----------
        X : array-like, shape=(n_observations, n_features(, n_atoms))
            Data to cluster.
        """

        t0 = time.perf_counter()

        self.result_ = hybrid(
            X, self.metric,
            n_iters=self.kmedoids_updates,
            n_clusters=self.n_clusters,
            dist_cutoff=self.cluster_radius,
            random_first_center=self.random_first_center,
            init_centers=init_centers,
            random_state=check_random_state(self.random_state),
            mpi_mode=self.mpi_mode, args=self.args,
            lengths=self.lengths)

        self.runtime_ = time.perf_counter() - t0

        return self


def hybrid(
        X, distance_method, n_iters=5, n_clusters=np.inf,
        dist_cutoff=0, random_first_center=False,
        init_centers=None, random_state=None, mpi_mode=False,
        args=None, lengths=None):

    distance_method = util._get_distance_method(distance_method)

    result = kcenters.kcenters(
        X, distance_method, n_clusters=n_clusters, dist_cutoff=dist_cutoff,
        init_centers=init_centers, random_first_center=random_first_center,
        mpi_mode=mpi_mode)

    cluster_center_inds, assignments, distances, centers = (
        result.center_indices, result.assignments, result.distances,
        result.centers)

    if args != None and args.save_intermediates:

        int_result = util.ClusterResult(
            center_indices=cluster_center_inds,
            assignments=assignments,
            distances=distances,
            centers=centers).partition(lengths)

        int_indcs, int_assigs, int_dists, int_centers = int_result

        print(int_indcs)
        print(np.shape(int_assigs))
        with timed("Wrote kcenters center indices in %.2f sec.", logger.info):
            util.write_centers_indices(
                args.center_indices,
                [(t, f * args.subsample) for t, f in int_indcs],
                intermediate_n=f'kcenters')

        with timed("Wrote kcenters center structures in %.2f sec.", logger.info):
            util.write_centers(int_result, args, intermediate_n=f'kcenters')

        util.write_assignments_and_distances_with_reassign(int_result, args, 
            intermediate_n=f'kcenters')

    if n_iters > 0:
        return kmedoids._kmedoids_iterations(
            X, distance_method, n_iters, cluster_center_inds, assignments,
            distances, args=args, lengths=lengths, random_state=random_state)
    else:
        return util.ClusterResult(
            center_indices=cluster_center_inds,
            assignments=assignments,
            distances=distances,
            centers=centers)


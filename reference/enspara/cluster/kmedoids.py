import copy
import time
import logging

import numpy as np

from sklearn.base import BaseEstimator, ClusterMixin
from sklearn.utils import check_random_state
from enspara.ra import ra

from .. import mpi
from .. import exception
from ..exception import ImproperlyConfigured

from ..util.log import timed

from . import util
# from enspara.cluster.util import *

try:
    from ..apps.cluster import write_assignments_and_distances_with_reassign, \
    write_centers, write_centers_indices
except:
    pass

logger = logging.getLogger(__name__)


class KMedoids(BaseEstimator, ClusterMixin, util.MolecularClusterMixin):
    """SKlearn-style object for kmedoids clustering.

    K-Medoids is a clustering algorithm similar to the k-means algorithm
    but the center of each cluster is required to actually be an
    observation in the input data.

    Parameters
    ----------
    metric : required
        Distance metric used while comparing data points.
    n_clusters : int, default=None
        The number of clusters to build using kmedoids. Only used if kmedoids
        is run without initial assignments, distances, or cluster_center_inds.
    n_iters : int, default=5
        Number of rounds of new proposed centers to run.

    Returns
    -------
    result : ClusterResult
        Subclass of NamedTuple containing assignments, distances,
        and center indices for this function.
    """

    def __init__(
            self, metric, n_clusters=None, n_iters=5, args=None, lengths=None):
        
        self.metric = util._get_distance_method(metric)

        self.n_clusters = n_clusters
        self.n_iters = n_iters
        self.args = args
        self.lengths = lengths

    def fit(self, X, assignments=None, distances=None,
            cluster_center_inds=None, X_lengths=None, args=None):
        """Takes trajectories, X, and performs KMedoids clustering.
        Automatically determines whether or not to use the MPI version of this
        algorithm. Can start from scratch or perform a warm start using inital
        assignments, distances, and cluster_center_inds. In mpi mode, the warm
        start requires initial assignments, distances, and cluster centers to be
        supplied. If not in mpi mode, can start with either just
        cluster_center_inds, or just assignments and distances, or all.

        Parameters
        ----------
        X : array-like, shape=(n_observations, n_features(, n_atoms))
            Data to cluster. In mpi mode, the user is responible for
            pre-partitioning this data across nodes.
        cluster_center_inds : 
            list, [(global_traj_id, frame_id), ...] or [index, ...], default=None
            A list of the locations of center indices with respect to all data
            not just the data on a single MPI rank.
        assignments : ndarray, shape=(X.shape[0],), default=None
            Array indicating the assignment of each frame in `X` to a
            cluster center.
        distances : ndarray, shape=(X.shape[0],), default=None
            Array giving the distance between this observation/frame and the
            relevant cluster center.
        X_lengths : list, [traj1_length, traj2_length, ...], default=None
            List of the lengths of all trajectories with respect to all data
            not just the data on a single MPI rank.
        """

        t0 = time.perf_counter()

        self.result_ = kmedoids(
            X,
            distance_method=self.metric,
            n_clusters=self.n_clusters,
            n_iters=self.n_iters,
            assignments=assignments,
            distances=distances,
            cluster_center_inds=cluster_center_inds,
            X_lengths=X_lengths, args=args)

        self.runtime_ = time.perf_counter() - t0
        return self


def kmedoids(X, distance_method, n_clusters=None, n_iters=5, assignments=None,
             distances=None, cluster_center_inds=None, proposals=None,
             X_lengths=None, args=None, lengths=None, random_state=None):
    """K-Medoids clustering.

    K-Medoids is a clustering algorithm similar to the k-means algorithm
    but the center of each cluster is required to actually be an
    observation in the input data.

    Parameters
    ----------
    X : array-like, shape=(n_observations, n_features, ``*``)
        Data to cluster. The user is responsible for pre-partitioning
        this data across nodes.
    distance_method : callable
        Function that takes a parameter like `X` and a single frame
        of `X` (_i.e._ X.shape[1:]).
    n_clusters : int, default=None
        Number of kmedoids clusters. Only used if cluster_center_inds are
        not supplied / can't be inferred from assignments and distances.
    n_iters : int, default=5
        Number of rounds of new proposed centers to run.
    assignments : ndarray, shape=(X.shape[0],), default=None
        Array indicating the assignment of each frame in `X` to a
        cluster center.
    distances : ndarray, shape=(X.shape[0],), default=None
        Array giving the distance between this observation/frame and the
        relevant cluster center.
    cluster_center_inds :
        list, [[global_traj_id, frame_id], ...] or [index, ...], default=None
        A list of the locations of center indices with respect to all data
        not just the data on a single MPI rank.
    proposals : array-like, default=None
        If specified, this list is a list of indices to propose as a
        center (rather than choosing randomly).
    X_lengths : list, [traj1_length, traj2_length, ...], default=None
        List of the lengths of all trajectories with respect to all data
        not just the data on a single MPI rank.
    random_state : int, default=None
        Random state to fix RNG with.

    Returns
    -------
    result : ClusterResult
        Subclass of NamedTuple containing assignments, distances,
        and center indices for this function.
    """

    if cluster_center_inds is not None:
        if hasattr(cluster_center_inds[0], '__len__') and X_lengths is None:
            raise ImproperlyConfigured(
            "If cluster_center_inds is given as [[global_traj_id, frame_id],...]"
            "then X_lengths also needs to be supplied")

    if cluster_center_inds is None and n_clusters is None:
        if mpi.size() > 1:
            raise ImproperlyConfigured(
            "Must provide n_clusters or cluster_center_inds, assignments,"
            "and distances for KMedoids in MPI mode.")
        elif assignments is None and distances is None:
            raise ImproperlyConfigured(
            "Must provide n_clusters or cluster_center_inds or "
            " (assignments and distances) for KMedoids")

    distance_method = util._get_distance_method(distance_method)

    n_frames = len(X)

    if mpi.size() > 1:
        assignments, distances, cluster_center_inds = \
         _kmedoids_inputs_tree_mpi(X, distance_method, n_clusters, assignments,
                               distances, cluster_center_inds, X_lengths,
                               random_state=random_state) 
        
        #Check that the cluster_center_inds on this ranks corresponed to
        # distances with value 0.
        local_ctr_inds = [pair[1] for pair in cluster_center_inds \
                          if pair[0] == mpi.rank()]
        assert np.all(distances[local_ctr_inds] <= 0.001 +
                      _self_distances(X, distance_method, local_ctr_inds))

    else:
        assignments, distances, cluster_center_inds = \
            _kmedoids_inputs_tree(X, distance_method, n_clusters, assignments,
                                  distances, cluster_center_inds, X_lengths,
                                  random_state=random_state)
        ctr_ids = util.find_cluster_centers(assignments, distances)
        
        #Should be all 0s, but machine precision issues means they might
        # be very close to 0 but not eactly 0.
        assert np.all(distances[cluster_center_inds] <= 0.001 +
                      _self_distances(X, distance_method, cluster_center_inds))

    return _kmedoids_iterations(
               X, distance_method, n_iters, cluster_center_inds,
               assignments, distances, proposals=proposals, args=args, lengths=lengths,
               random_state=random_state)

def _self_distances(X, distance_method, inds):
    """Distance of each frame X[i], i in inds, to itself. Exactly 0 for
    most metrics, but round-off for some: md.rmsd computes in float32 and
    its error grows with the size of the structure."""
    return np.array([distance_method(X[[i]], X[i])[0] for i in inds],
                    dtype=float)

def _kmedoids_inputs_tree_mpi(X, distance_method, n_clusters, assignments,
                              distances, cluster_center_inds, X_lengths,
                              random_state=None):
    """Helper function to process K-Medoids clustering inputs in mpi mode.

    Parameters
    ----------
    X : array-like, shape=(n_observations, n_features, ``*``)
        Data to cluster. The user is responsible for pre-partitioning
        this data across nodes.
    distance_method : callable
        Function that takes a parameter like `X` and a single frame
        of `X` (_i.e._ X.shape[1:]).
    n_clusters : int
        Number of kmedoids clusters. Only used if cluster_center_inds are
        not supplied / can't be inferred from assignments and distances.
    assignments : ndarray, shape=(X.shape[0],)
        Array indicating the assignment of each frame in `X` to a
        cluster center.
    distances : ndarray, shape=(X.shape[0],)
        Array giving the distance between this observation/frame and the
        relevant cluster center.
    cluster_center_inds :
        list, [(global_traj_id, frame_id), ...] or [index, ...]
        A list of the locations of center indices with respect to all data
        not just the data on a single MPI rank.
    X_lengths : list, [traj1_length, traj2_length, ...]
        List of the lengths of all trajectories with respect to all data
        not just the data on a single MPI rank.
    random_state : int, default = None
        Random state to fix RNG with.

    Returns
    -------
    assignments : ndarray, shape=(X.shape[0],)
        Array indicating the assignment of each frame in `X` to a
        cluster center.
    distances : ndarray, shape=(X.shape[0],)
        Array giving the distance between this observation/frame and the
        relevant cluster center.
    cluster_center_inds : list, [(owner_rank, world_index), ...]
        A list of the locations of center indices in terms of the rank
        of the node that owns them and the index within that world.
    """
   
    # If we're not given warm start, we need to randomly generate
    # cluster_center_inds by communicating across ranks. Then, we
    # can obtain center coordinates and calculate assignments and distances
    # on each rank
    if (cluster_center_inds is None and distances is None
       and assignments is None):

        for i in range(n_clusters):
            r, idx = mpi.ops.randind(np.arange(X), check_random_state(random_state))
            cluster_center_inds.append((r, idx))
        
        medoid_coords = []
        assert len(cluster_center_inds[0]) == 2
        for center_idx, (rank, frame_idx) in enumerate(cluster_center_inds):
            assert rank < mpi.size()
            new_center = mpi.ops.distribute_frame(
                data=X, owner_rank=rank, world_index=frame_idx)
            medoid_coords.append(new_center)

        assignments, distances = util.assign_to_nearest_center(
                X, medoid_coords, distance_method)
        
    # If we are given a warm start, we have to translate cluster_center_inds
    # into the form that is appropriate for MPI communication
    elif (cluster_center_inds is not None and distances is not None
         and assignments is not None):
        cluster_center_inds = ctr_ids_mpi(cluster_center_inds, X_lengths)

    else:
        raise ImproperlyConfigured(
            "For KMedoids, MPI mode can start from scratch without "
            "assignments, distances, or cluster_center_inds. "
            "Or, it requires that all are supplied.")
    
    return assignments, distances, cluster_center_inds

def _kmedoids_inputs_tree(
        X, distance_method, n_clusters, assignments, distances,
        cluster_center_inds, X_lengths, random_state=None):
    """Helper function to process K-Medoids clustering inputs in mpi mode.

    Parameters
    ----------
    X : array-like, shape=(n_observations, n_features, ``*``)
        Data to cluster. The user is responsible for pre-partitioning
        this data across nodes.
    distance_method : callable
        Function that takes a parameter like `X` and a single frame
        of `X` (_i.e._ X.shape[1:]).
    n_clusters : int
        Number of kmedoids clusters. Only used if cluster_center_inds are
        not supplied / can't be inferred from assignments and distances.
    assignments : ndarray, shape=(X.shape[0],)
        Array indicating the assignment of each frame in `X` to a
        cluster center.
    distances : ndarray, shape=(X.shape[0],)
        Array giving the distance between this observation/frame and the
        relevant cluster center.
    cluster_center_inds :
        list, [(global_traj_id, frame_id), ...] or [index, ...]
        A list of the locations of center indices with respect to all data
        not just the data on a single MPI rank.
    X_lengths : list, [traj1_length, traj2_length, ...]
        List of the lengths of all trajectories with respect to all data
        not just the data on a single MPI rank.
    random_state : int, default = None
        Random state to fix RNG with.

    Returns
    -------
    assignments : ndarray, shape=(X.shape[0],)
        Array indicating the assignment of each frame in `X` to a
        cluster center.
    distances : ndarray, shape=(X.shape[0],)
        Array giving the distance between this observation/frame and the
        relevant cluster center.
    cluster_center_inds : list, [index, ...]
        A list of the locations of center indices.
    """

    rng = np.random.default_rng(seed=random_state)

    if ((assignments is not None and distances is None) or 
        (assignments is None and distances is not None)):
        raise ImproperlyConfigured(
            "Assignments and distances need to both be supplied, "
            "or neither supplied.")

    # If no cluster center indices were given, we need to infer them
    # from assignments and distances, or randomly generate them
    if cluster_center_inds is None:
        if assignments is not None and distances is not None:
            cluster_center_inds = \
                util.find_cluster_centers(assignments,distances)
        else:
            # the initial medoids have to be distinct frames: draw them
            # without replacement (redrawing a with-replacement sample until
            # it happens to be collision-free does not terminate once
            # n_clusters exceeds a few multiples of sqrt(len(X)))
            cluster_center_inds = rng.choice(
                len(X), size=n_clusters, replace=False)
    
    # If cluster_center_inds is given as [(trj id, frame id), ...]
    elif hasattr(cluster_center_inds[0], '__len__'):
        cluster_center_inds = [sum(X_lengths[:cluster_center_inds[i][0]]) \
                               + cluster_center_inds[i][1] for i in \
                               np.arange(len(cluster_center_inds))] 

    # Now we need to make sure we have assignments and distances
    if assignments is None and distances is None:
        assignments, distances = util.assign_to_nearest_center(
                X, X[cluster_center_inds], distance_method)

    return assignments, distances, cluster_center_inds

def ctr_ids_mpi(cluster_center_inds, lengths):
    """Map cluster_center_inds to MPI compatible format
   
    Parameters
    ----------
    cluster_center_inds :
        list, [(global_traj_id, frame_id), ...] or [index, ...]
        A list of the locations of center indices with respect to all data
        not just the data on a single MPI rank.
    X_lengths : list, [traj1_length, traj2_length, ...]
        List of the lengths of all trajectories with respect to all data
        not just the data on a single MPI rank.

    Returns
    -------
    updated_ctr_inds : list, [(rank, index), ...]
        List of cluster center indices in format expected for MPI mode.
"""

    num_procs = mpi.size()
    updated_ctr_inds = []
    global_inds = ra.RaggedArray(np.arange(sum(lengths)),lengths=lengths)

    if not hasattr(cluster_center_inds[0], '__len__'):
        # Convert from [global_frame_ind, ...] to 
        # [[global_traj_id, local_frame_id],...]
        cluster_center_inds = [[ra.where(global_inds == c)[0][0], \
                           ra.where(global_inds == c)[1][0]] for c in \
                           cluster_center_inds]

    # Converting from [[global_traj_id, local_frame_id],...] to 
    # [(mpi_rank, local_frame_ind), ...]
    for pair in cluster_center_inds:
        global_traj_id, frame_id = pair
        mpi_rank = global_traj_id % num_procs
        trajs_owned = global_inds[np.arange(len(lengths))[mpi_rank::num_procs]]
        trajs_owned_local_inds = \
            ra.RaggedArray(np.arange(sum(trajs_owned.lengths)),
                           lengths=trajs_owned.lengths)
        local_trj_id = int(global_traj_id/num_procs)
        concat_idx = trajs_owned_local_inds[local_trj_id][frame_id]
        updated_ctr_inds.append((mpi_rank,concat_idx))

    return updated_ctr_inds

def _kmedoids_iterations(
        X, distance_method, n_iters, cluster_center_inds,
        assignments, distances, proposals=None, args=None, 
        lengths=None, random_state=None):
    """Inner loop performing kmedoids updates.

    Parameters
    ----------
    X : array-like, shape=(n_observations, n_features, *)
        Data to cluster. The user is responsible for pre-partitioning
        this data across nodes.
    disance_method : callable
        Function that takes a parameter like `X` and a single frame
        of `X` (_i.e._ X.shape[1:]).
    n_iters : int
        Number of rounds of new proposed centers to run.
    cluster_center_inds : list, [(rank, index), ...] if MPI or [index, ...]
        A list of the locations of center indices in terms of the rank
        of the node that owns them and the index within that world.
    assignments : ndarray, shape=(X.shape[0],)
        Array indicating the assignment of each frame in `X` to a
        cluster center.
    distances : ndarray, shape=(X.shape[0],)
        Array giving the distance between this observation/frame and the
        relevant cluster center.
    proposals : array-like, default=None
        If specified, this list is a list of indices to propose as a
        center (rather than choosing randomly).
    random_state : int, default = None
        Random state to fix RNG with.

    Returns
    -------
    result : ClusterResult
        Subclass of NamedTuple containing assignments, distances,
        and center indices for this function.
    """

    for i in range(n_iters):
        cluster_center_inds, distances, assignments, centers = \
            _kmedoids_pam_update(X, distance_method, cluster_center_inds,
                                 assignments, distances, proposals=proposals,
                                 random_state=random_state)
        result = util.ClusterResult(
            center_indices=cluster_center_inds,
            assignments=assignments,
            distances=distances,
            centers=centers)

        if args != None and args.save_intermediates:
            #if on the last iteration, about to save anyways...
            int_result = result.partition(lengths)
            int_indcs, int_assigs, int_dists, int_centers = int_result

            if i != n_iters -1:
                with timed("Wrote center indices in %.2f sec.", logger.info):
                    util.write_centers_indices(
                        args.center_indices,
                        [(t, f * args.subsample) for t, f in int_indcs],
                        intermediate_n=f'kmedoids-{i}')
                with timed("Wrote center structures in %.2f sec.", logger.info):
                    util.write_centers(int_result, args, intermediate_n=f'kmedoids-{i}')
                util.write_assignments_and_distances_with_reassign(int_result, args, 
                    intermediate_n=f'kmedoids-{i}')
        logger.info("KMedoids update %s", i)

    return result

def _msq(x):
    return mpi.ops.striped_array_mean(np.square(x))


def _propose_new_center_amongst(X, state_inds, mpi_mode, random_state):
    """Propose a new center amongst a list of indices.

    Parameters
    ----------
    X : array-like, shape=(n_observations, n_features, *)
        Data from which to propose the new center.
    state_inds : array-like
        The indices (in X) from which to propose new centers.
    mpi_mode : boolean
        Propose a center in the form (rank, local index) rather than in
        the form of a single index.
    random_state : numpy.RandomState
        The state of the RNG to use when drawing new random values.
    """
    random_state = check_random_state(random_state)

    # TODO: make it impossible to choose the current center
    if mpi_mode:
        r, idx = mpi.ops.randind(state_inds, random_state)
        if mpi.rank() == r:
            i = mpi.comm.bcast(state_inds[idx], root=r)
        else:
            i = mpi.comm.bcast(None, root=r)
        proposed_center = mpi.ops.distribute_frame(
            data=X, owner_rank=r, world_index=i)
        proposed_center_ind = (r, i)

        logger.debug(
            "Proposing new center %s, at %s.",
            proposed_center_ind, (r, idx))
    else:
        proposed_center_ind = random_state.choice(state_inds)
        proposed_center = X[proposed_center_ind]

    return proposed_center, proposed_center_ind


def _kmedoids_pam_update(
        X, metric, medoid_inds, assignments, distances, proposals=None,
        cost=_msq, random_state=None):
    """Compute a kmedoids update using Partitioning Around Medoids (PAM)

    PAM iteratively proposes a new cluster center from among the points
    assigned to a cluster center, recomputes the cost function, and
    accepts the proposal if cost goes down. Its time complexity is
    O(k*n*i), where k is the number of centers, n is the size of the data
    and i is the number of iterations (i.e. each invocation of this
    function costs O(kn).)

    Parameters
    ----------
    X : array-like, shape=(n_observations, n_features, *)
        Data to cluster. The user is responsible for pre-partitioning
        this data across nodes.
    metric : callable
        Function that takes a parameter like `X` and a single frame
        of `X` (_i.e._ X.shape[1:]).
    medoid_inds : list, [(rank, index), ...] if MPI or [index, ...]
        A list of the locations of center indices in terms of the rank
        of the node that owns them and the index within that world.
    assignments : ndarray, shape=(X.shape[0],)
        Array indicating the assignment of each frame in `X` to a
        cluster center.
    distances : ndarray, shape=(X.shape[0],)
        Array giving the distance between this observation/frame and the
        relevant cluster center.
    proposals : array-like, default=None
        If specified, this list is a list of indices to propose as a
        center (rather than choosing randomly).
    cost : callable, default='meansquare'
        Function computing the cost of a particular clustering. Should
        take a vector of distances and returning a number. This value is
        minimzed.
    random_state : numpy.RandomState
        RandomState object used to indentify new centers.

    Returns
    -------
    updated_cluster_center_inds : list, [(owner_rank, world_index), ...]
        A list of the locations of center indices in terms of the rank
        of the node that owns them and the index within that world.
    updated_assignments : ndarray, shape=(traj.shape[0],)
        Array indicating the assignment of each frame in `traj` to a
        cluster center.
    updated_distances : ndarray, shape=(traj.shape[0],)
        Array giving the distance between this observation/frame and the
        relevant cluster center.
    updated_centers : list
        List of center coordinates (n_atoms, 3) or (n_features,) after
        kmedoids updates have been run
    """

    assert np.issubdtype(type(assignments[0]), np.integer)
    assert len(assignments) == len(X)
    assert len(distances) == len(X)

    random_state = check_random_state(random_state)

    # don't modify the caller's list of center indices in place
    medoid_inds = copy.copy(medoid_inds)

    if proposals is not None:
        logger.debug("Got proposals, won't randomly propose.")
        if len(proposals) != len(medoid_inds):
            raise exception.DataInvalid(
                "Length of 'proposals' didn't match length of 'medoid_inds' "
                "({} != {}).".format(len(proposals), len(medoid_inds)))
        if (hasattr(proposals[0], '__len__') !=
                hasattr(medoid_inds[0], '__len__')):
            raise exception.DataInvalid(
                "Depth of 'proposals' didn't match 'medoid_inds' "
                "(proposals[0] == {}, whereas medoid_inds[0] == {})".format(
                    proposals[0], medoid_inds[0]))

    # first we build a list of the actual coordinates of the cluster centers
    # this list will be updated as we go; this is primarily because we want
    # to limit the amount of communication that happens when we're running
    # MPI mode.
    medoid_coords = []
    if hasattr(medoid_inds[0], '__len__'):
        assert len(medoid_inds[0]) == 2
        for center_idx, (rank, frame_idx) in enumerate(medoid_inds):
            assert rank < mpi.size()
            new_center = mpi.ops.distribute_frame(
                data=X, owner_rank=rank, world_index=frame_idx)
            medoid_coords.append(new_center)
    else:
        medoid_coords = [X[i] for i in medoid_inds]

    acceptances = 0
    for cid in range(len(medoid_inds)):
        state_inds = np.where(assignments == cid)[0]

        # first, we propose a new center. This works a bit differently
        # if we're running with MPI, because we want to make a choice
        # that uniformly distributed across any node.
        if proposals is None:
            proposed_center, proposed_center_ind = _propose_new_center_amongst(
                X, state_inds,
                mpi_mode=hasattr(medoid_inds[0], '__len__'),
                random_state=random_state)
        else:
            proposed_center_ind = proposals[cid]
            if hasattr(proposed_center_ind, '__len__'):
                proposed_center = mpi.ops.distribute_frame(
                    data=X, owner_rank=proposed_center_ind[0],
                    world_index=proposed_center_ind[1])
            else:
                proposed_center = X[proposed_center_ind]

        logger.debug("Proposed new medoid (%s -> %s) for k=%s",
                     medoid_inds[cid], proposed_center_ind, cid)

        # In the PAM method, once we have a new center, we recompute
        # the distance from this center to every point. Depending on if
        # the distance goes up or down, and which old center it was
        # assigned to (this or other), we update distances and assignents.
        new_ctr_dist = metric(X, proposed_center)

        new_dist = np.zeros_like(distances) - 1
        new_assig = np.zeros_like(assignments) - 1

        # if the new center decreases the distance below whatever it is
        # to its current medoid (cid or not cid), assign it to cid
        dst_dn = (distances > new_ctr_dist)
        new_assig[dst_dn] = cid
        new_dist[dst_dn] = new_ctr_dist[dst_dn]

        # if the new center increases the distance, we have to think
        # harder. If it's assigned to some other medoid, we just copy
        # the old assignments into the new assignments array.
        dst_up_assig_other = (distances <= new_ctr_dist) & (assignments != cid)
        new_assig[dst_up_assig_other] = assignments[dst_up_assig_other]
        new_dist[dst_up_assig_other] = distances[dst_up_assig_other]

        # if the new center increases the distance to cid and it was
        # previously assigned to cid, then we have to compute the
        # distance to _all_ other medoids :(
        dst_up_assig_this = (distances <= new_ctr_dist) & (assignments == cid)

        new_medoids = medoid_coords.copy()
        new_medoids[cid] = proposed_center

        with timed("Recomputed nearest medoid for {n} points in %.2f sec."
                   .format(n=np.count_nonzero(dst_up_assig_this)),
                   logger.debug):
            ambig_assigs, ambig_dists = util.assign_to_nearest_center(
                X[dst_up_assig_this], new_medoids, metric)

        new_assig[dst_up_assig_this] = ambig_assigs
        new_dist[dst_up_assig_this] = ambig_dists

        # every element of new_dist and new_assig should have been touched
        assert np.all(new_assig >= 0)
        assert np.all(new_dist >= 0)


        # Added timing to cost computation
        with timed("Computed costs points in %.2f sec.",
                   logger.debug):
            old_cost = cost(distances)
            new_cost = cost(new_dist)

        if new_cost < old_cost:
            logger.debug(
                "Accepted proposed center for k=%s: cost %.5f -> %.5f).",
                cid, old_cost, new_cost)
            distances, assignments = new_dist, new_assig
            medoid_coords = new_medoids
            medoid_inds[cid] = proposed_center_ind
            acceptances += 1
        else:
            logger.debug(
                "Rejected proposed center for k=%s: cost %.5f -> %.5f).",
                cid, old_cost, new_cost)

    logger.info("Kmedoid sweep reduced cost to %.7f (%.2f%% acceptance)",
                min(old_cost, new_cost), acceptances / len(medoid_inds) * 100)

    return medoid_inds, distances, assignments, medoid_coords

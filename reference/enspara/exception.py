"""Custom enspara-only exceptions.
"""


class ImproperlyConfigured(Exception):
    '''The given configuration is incomplete or otherwise not usable.'''
    pass


class DataInvalid(Exception):
    '''
    The data looks structurally invalid (mismatched array lengths,
    negative numbers were natural numbers are expected, etc).
    '''
    pass


class InsufficientResourceError(Exception):
    """The data is structurally valid, but insufficient computational
    resources were availiable to complete the operation or request.
    """
    pass

class SuspiciousDataWarning(UserWarning):
    """The data is usable, but is has a structure or type that is
    suspicious, and may cause bad behavior down the road.
    """
    pass


class PerformanceWarning(UserWarning):
    """Something has happened that may have substantial performance
    implications and may be easy to avoid.
    """
    pass

class ConvergenceWarning(UserWarning):
    """An iterative procedure has failed to converge after the maximum
    allowed number of iterations."""
    pass

### Transplanted whole-cloth from msmbuilder ###

# Author(s): TJ Lane (tjlane@stanford.edu) and Christian Schwantes
#            (schwancr@stanford.edu)
# Contributors: Vince Voelz, Kyle Beauchamp, Robert McGibbon
# Copyright (c) 2014, Stanford University
# All rights reserved.

"""
Functions for enumerating paths through an MSM for a given
set of sink and source states.

These are the canonical references for TPT. Note that TPT
is really a specialization of ideas very familiar to the
mathematical study of Markov chains, and there are many
books, manuscripts in the mathematical literature that
cover the same concepts.

In addition, the original paper from Dijkstra describing the
path finding algorithm we employ is listed below.

References
----------
.. [1] Weinan, E. and Vanden-Eijnden, E. Towards a theory of
       transition paths. J. Stat. Phys. 123, 503-523 (2006).
.. [2] Metzner, P., Schutte, C. & Vanden-Eijnden, E.
       Transition path theory for Markov jump processes.
       Multiscale Model. Simul. 7, 1192-1219 (2009).
.. [3] Berezhkovskii, A., Hummer, G. & Szabo, A. Reactive
       flux and folding pathways in network models of
       coarse-grained protein dynamics. J. Chem. Phys.
       130, 205102 (2009).
.. [4] Dijkstra, E. W. A Note on Two Problems in Connexion with Graphs.
       Numeriche Mathematik 1, 269-271 (1959).
.. [5] Noe, Frank, et al. "Constructing the equilibrium ensemble of folding
       pathways from short off-equilibrium simulations." PNAS 106.45 (2009):
       19011-19016.
"""
from __future__ import print_function, division, absolute_import
import numpy as np
import copy

__all__ = ['paths', 'top_path']


def top_path(sources, sinks, net_flux):
    """
    Use the Dijkstra algorithm for finding the shortest path
    connecting a set of source states from a set of sink states.

    Parameters
    ----------
    sources : array_like, int
        One-dimensional list of nodes to define the source states.
    sinks : array_like, int
        One-dimensional list of nodes to define the sink states.
    net_flux : np.ndarray, shape = [n_states, n_states]
        Net flux of the MSM

    Returns
    -------
    top_path : np.ndarray
        Array corresponding to the top path between sources and
        sinks. It is an array of states visited along the path.
    flux : float
        Flux traveling through this path -- this is equal to the
        minimum flux over edges in the path.

    See Also
    --------
    msmbuilder.tpt.paths : function for calculating many high
        flux paths through a network.

    References
    ----------
    .. [1] Weinan, E. and Vanden-Eijnden, E. Towards a theory of
           transition paths. J. Stat. Phys. 123, 503-523 (2006).
    .. [2] Metzner, P., Schutte, C. & Vanden-Eijnden, E.
           Transition path theory for Markov jump processes.
           Multiscale Model. Simul. 7, 1192-1219 (2009).
    .. [3] Berezhkovskii, A., Hummer, G. & Szabo, A. Reactive
           flux and folding pathways in network models of
           coarse-grained protein dynamics. J. Chem. Phys.
           130, 205102 (2009).
    .. [4] Dijkstra, E. W. A Note on Two Problems in Connexion with Graphs.
           Numeriche Mathematik 1, 269-271 (1959).
    .. [5] Noe, Frank, et al. "Constructing the equilibrium ensemble of folding
           pathways from short off-equilibrium simulations." PNAS 106.45 (2009):
           19011-19016.
    """
    sources = np.array(sources, dtype=int).reshape((-1,))
    sinks = np.array(sinks, dtype=int).reshape((-1,))

    n_states = net_flux.shape[0]

    queue = list(sources)
    # nodes to check (the "queue")
    # going to use list.pop method so I can't keep it as an array

    visited = np.zeros(n_states).astype(bool)
    # have we already checked this node?

    previous_node = np.ones(n_states).astype(int) * -1
    # what node was found before finding this one

    min_fluxes = np.ones(n_states) * -1 * np.inf
    # what is the flux of the highest flux path
    # from this node to the source set.

    min_fluxes[sources] = np.inf
    # source states are connected to the source
    # so this distance is zero which means the flux is infinite

    while len(queue) > 0: # iterate until there's nothing to check anymore

        test_node = queue.pop(min_fluxes[queue].argmax())
        # find the node in the queue that has the
        # highest flux path to it from the source set

        visited[test_node] = True

        if np.all(visited[sinks]):
            # if we've visited all of the sink states, then we just have to choose
            # the path that goes to the sink state that is closest to the source
            break

        # if test_node in sinks: # I *think* we want to break ... or are there paths we still
        # need to check?
        # continue
        # I think if sinks is more than one state we have to check everything

        # now update the distances for each neighbor of the test_node:
        neighbors = np.where(net_flux[test_node, :] > 0)[0]
        if len(neighbors) == 0:
            continue

        new_fluxes = net_flux[test_node, neighbors].flatten()
        # flux from test_node to each neighbor

        new_fluxes[np.where(new_fluxes > min_fluxes[test_node])] = min_fluxes[test_node]
        # previous step to get to test_node was lower flux, so that is still the path flux

        ind = np.where((1 - visited[neighbors]) & (new_fluxes > min_fluxes[neighbors]))
        min_fluxes[neighbors[ind]] = new_fluxes[ind]

        previous_node[neighbors[ind]] = test_node
        # each of these neighbors came from this test_node
        # we don't want to update the nodes that have already been visited

        queue.extend(neighbors[ind])

    top_path = []
    # populate the path in reverse
    top_path.append(int(sinks[min_fluxes[sinks].argmax()]))
    # find the closest sink state

    while previous_node[top_path[-1]] != -1:
        top_path.append(previous_node[top_path[-1]])

    return np.array(top_path[::-1]), min_fluxes[top_path[0]]


def _remove_bottleneck(net_flux, path):
    """
    Internal function for modifying the net flux matrix by removing
    a particular edge, corresponding to the bottleneck of a particular
    path.
    """
    net_flux = copy.copy(net_flux)

    bottleneck_ind = net_flux[path[:-1], path[1:]].argmin()

    net_flux[path[bottleneck_ind], path[bottleneck_ind + 1]] = 0.0

    return net_flux


def _subtract_path_flux(net_flux, path):
    """
    Internal function for modifying the net flux matrix by subtracting
    a path's flux from every edge in the path.
    """

    net_flux = copy.copy(net_flux)

    net_flux[path[:-1], path[1:]] -= net_flux[path[:-1], path[1:]].min()

    # The above *should* make the bottleneck have zero flux, but
    # numerically that may not be the case, so just set it to zero
    # to be sure.
    bottleneck_ind = net_flux[path[:-1], path[1:]].argmin()
    net_flux[path[bottleneck_ind], path[bottleneck_ind + 1]] = 0.0

    return net_flux


def paths(sources, sinks, net_flux, remove_path='subtract',
          num_paths=np.inf, flux_cutoff=(1-1E-10)):
    """
    Get the top N paths by iteratively performing Dijkstra's
    algorithm.

    Parameters
    ----------
    sources : array_like, int
        One-dimensional list of nodes to define the source states.
    sinks : array_like, int
        One-dimensional list of nodes to define the sink states.
    net_flux : np.ndarray
        Net flux of the MSM
    remove_path : str or callable, optional
        Function for removing a path from the net flux matrix.
        (if str, one of {'subtract', 'bottleneck'})
        See note below for more details.
    num_paths : int, optional
        Number of paths to find
    flux_cutoff : float, optional
        Quit looking for paths once the explained flux is greater
        than this cutoff (as a percentage of the total).

    Returns
    -------
    paths : list
        List of paths. Each item is an array of nodes visited
        in the path.
    fluxes : np.ndarray, shape = [n_paths,]
        Flux of each path returned.

    Notes
    -----
    The Dijkstra algorithm only allows for computing the
    *single* top flux pathway through the net flux matrix. If
    we want many paths, there are many ways of finding the
    *second* highest flux pathway.

    The algorithm proceeds as follows:

    1. Using the Djikstra algorithm, find the highest flux
       pathway from the sources to the sink states
    2. Remove that pathway from the net flux matrix by
       some criterion
    3. Repeat (1) with the modified net flux matrix

    Currently, there are two schemes for step (2):

    - 'subtract' : Remove the path by subtracting the flux
      of the path from every edge in the path. This was
      suggested by Metzner, Schutte, and Vanden-Eijnden.
      Transition Path Theory for Markov Jump Processes.
      Multiscale Model. Simul. 7, 1192-1219 (2009).
    - 'bottleneck' : Remove the path by only removing
      the edge that corresponds to the bottleneck of the
      path.

    If a new scheme is desired, the user may pass a function
    that takes the net_flux and the path to remove and returns
    the new net flux matrix.

    See Also
    --------
    msmbuilder.tpt.top_path : function for computing the single
        highest flux pathway through a network.

    References
    ----------
    .. [1] Weinan, E. and Vanden-Eijnden, E. Towards a theory of
           transition paths. J. Stat. Phys. 123, 503-523 (2006).
    .. [2] Metzner, P., Schutte, C. & Vanden-Eijnden, E.
           Transition path theory for Markov jump processes.
           Multiscale Model. Simul. 7, 1192-1219 (2009).
    .. [3] Berezhkovskii, A., Hummer, G. & Szabo, A. Reactive
           flux and folding pathways in network models of
           coarse-grained protein dynamics. J. Chem. Phys.
           130, 205102 (2009).
    .. [4] Dijkstra, E. W. A Note on Two Problems in Connexion with Graphs.
           Numeriche Mathematik 1, 269-271 (1959).
    .. [5] Noe, Frank, et al. "Constructing the equilibrium ensemble of folding
           pathways from short off-equilibrium simulations." PNAS 106.45 (2009):
           19011-19016.
    """

    if not callable(remove_path):
        if remove_path == 'subtract':
            remove_path = _subtract_path_flux
        elif remove_path == 'bottleneck':
            remove_path = _remove_bottleneck
        else:
            raise ValueError("remove_path_func (%s) must be a callable or one of ['subtract', 'bottleneck']" % str(remove_path))

    net_flux = copy.copy(net_flux)

    paths = []
    fluxes = []

    total_flux = net_flux[sources, :].sum()
    # total flux is the total flux coming from the sources (or going into the sinks)

    counter = 0
    expl_flux = 0.0
    while counter < num_paths:
        path, flux = top_path(sources, sinks, net_flux)
        if np.isinf(flux):
            break

        paths.append(path)
        fluxes.append(flux)

        expl_flux += flux / total_flux
        counter += 1

        if counter >= num_paths or expl_flux >= flux_cutoff:
            break

        # modify the net_flux matrix
        net_flux = remove_path(net_flux, path)

    fluxes = np.array(fluxes)

    return paths, fluxes

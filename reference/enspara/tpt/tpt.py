#author(s): Maxwell Zimmerman

"""
Functions for calculating metrics from transition path theory (TPT).
Included are, given a set of sources and sinks: 1) the flux through
states and 2) the density of each state.

References
----------
.. [1] Metzner, P., Schutte, C. & Vanden-Eijnden, E. Transition path
       theory for Markov jump processes. Multiscale Model. Simul. 7,
       1192-1219 (2009).
"""
from __future__ import print_function, division, absolute_import

import numpy as np
from scipy import sparse

from . import committors
from ..msm.transition_matrices import eq_probs


__all__ = ['reactive_fluxes', 'net_fluxes', 'reactive_populations']


def _get_data_from_tprob(tprob, sources, sinks, populations):
    """A helper function for parsing data and returning relevant
       parameters for TPT analysis
    """

    sources = np.array(sources).reshape((-1,))
    sinks = np.array(sinks).reshape((-1,))
    # check to see if populations exist
    if populations is None:
        populations = eq_probs(tprob)

    n_states = len(populations)

    # check if committors exist
    forward_committors = committors(tprob, sources, sinks)

    # reverse committors if process is at equilibrium
    reverse_committors = 1 - forward_committors

    return populations, n_states, forward_committors, reverse_committors


def reactive_fluxes(tprob, sources, sinks, populations=None):
    """Computes the total flux along any edge in an MSM from a set of
    sources to sinks.

    Parameters
    ----------
    tprob : array, shape [n_states, n_states]
        Transition probability matrix.
    sources : array_like, int
        The set of unfolded/reactant states.
    sinks : array_like, int
        The set of folded/product states.
    populations : array, shape [n_states, ], optional, default: None
        Equilibrium populations of each state. If not provided, will
        recalculate from tprob.

    Returns
    -------
    fluxes : np.ndarray
        The flux through each edge in a MSM from a set of sources
        to sinks

    See Also
    --------
    """

    # parse data and obtain relevant parameters

    populations, n_states, forward_committors, reverse_committors = \
        _get_data_from_tprob(tprob, sources, sinks, populations)

    # fij = pi_i * q-_i * Tij * q+_j
    if sparse.issparse(tprob):
        fluxes = tprob.multiply((populations * reverse_committors)[:, None])\
                      .multiply(forward_committors)
        fluxes = fluxes.tolil()
    else:
        fluxes = \
            tprob * ((populations * reverse_committors)[:, None]) \
            * forward_committors

    fluxes[(np.arange(n_states), np.arange(n_states))] = np.zeros(n_states)

    return fluxes


def net_fluxes(tprob, sources, sinks, populations=None):
    """Computes the net fluxes along a given edge from a set of sources
    to sinks.

    Parameters
    ----------
    tprob : array, shape [n_states, n_states]
        Transition probability matrix.
    sources : array_like, int
        The set of unfolded/reactant states.
    sinks : array_like, int
        The set of folded/product states.
    populations : array, shape [n_states, ], optional, default: None
        Equilibrium populations of each state. If not provided, will
        recalculate from tprob.

    Returns
    -------
    net_fluxes : np.ndarray
        The flux through each edge in a MSM from a set of sources
        to sinks

    See Also
    --------
    """
    # calculate the probability flux through each edge
    fluxes = reactive_fluxes(tprob, sources, sinks, populations=populations)

    # get the net flux along each edge
    net_fluxes = fluxes - fluxes.T
    # (a boolean mask also works for the sparse matrix that a sparse tprob
    # yields; np.where does not understand sparse matrices)
    net_fluxes[net_fluxes < 0] = 0
    return net_fluxes


def reactive_populations(tprob, sources, sinks, populations=None):
    """Compute the probability that a state is observed on a
    reactive trajectory.

    Parameters
    ----------
    sources : array_like, int
        The set of unfolded/reactant states.
    sinks : array_like, int
        The set of folded/product states.
    tprob : array, shape [n_states, n_states]
        Transition probability matrix.
    populations : array, shape [n_states, ], optional, default: None
        Equilibrium populations of each state. If not provided, will
        recalculate from tprob.

    Returns
    -------
    population : np.ndarray
        The probability a state is observed from A to B.

    See Also
    --------
    """
    # parse data and obtain relevant parameters
    populations, n_states, forward_committors, reverse_committors = \
        _get_data_from_tprob(tprob, sources, sinks, populations)

    # mR_i = pi_i * q+_i * q-_i
    densities = populations * forward_committors * reverse_committors
    populations = densities / np.sum(densities)

    return populations

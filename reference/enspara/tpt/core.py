# Author(s): Maxwell Zimmerman

"""
Core theorems for understanding transitions in MSMs. Calculation of
committor probabilities and mean first passage times (mfpts). These
are classic ideas in MSMs and are covered in the following reference.

References
----------
.. [1] Grinstead, C.M. and Snell, J.L., Introduction to Probability
       American Mathematical Society Providence (2006)
"""
from __future__ import print_function, division, absolute_import

import warnings

import numpy as np
import scipy.sparse

from ..msm.transition_matrices import eq_probs

__all__ = ['committors', 'mfpts']


def _I_m_Q(tprob, absorbing_states, n_states=None):
    """Calculates (I-Q) as is defined in ref [1]_. This is fundamental
    for calculating committors and mfpts.
    """
    # if no states are supplied, determine from tprob
    if n_states is None:
        n_states = len(tprob)
    # Calculate (I-Q)
    I_m_Q = np.eye(n_states) - tprob
    I_m_Q[:, absorbing_states] = 0.0
    I_m_Q[absorbing_states, :] = 0.0
    I_m_Q[absorbing_states, absorbing_states] = 1.0
    return I_m_Q


def committors(tprob, sources, sinks):
    """Get the forward committors of the reaction sources -> sinks.

    The forward committor probability, q+, for a state is the
    probability that it reaches a defined sink state(s) before it
    reaches a source state(s). The reverse committor, q-, is the
    probability of reaching the source state first; at equilibrium the
    forward and reverse committors are related by the following
    equation: :math:`q^+ = 1 - q^-`

    The forward committors are calculated by turning all sources and
    sinks into absorbing states and calculating the probability of
    reaching one set of aborbing states over the other, as covered in
    the above reference.

    Parameters
    ----------
    tprob : array-like, shape=(n_states, n_states)
        Transition probability matrix.
    sources : array-like, int
        The set of source (reactant) states.
    sinks : array-like, int
        The set of sink (product) states.

    Returns
    -------
    committors : np.ndarray
        The forward committors for the reaction sources -> sinks
    """

    # set the data structure for sources, sinks, and every state that we will
    # make absorbing
    sources = np.array(sources, dtype=int).reshape((-1, 1)).flatten()
    sinks = np.array(sinks, dtype=int).reshape((-1, 1)).flatten()
    all_absorbing = np.append(sources, sinks)

    if scipy.sparse.issparse(tprob):
        # required indexing operations are fast with LIL matrices
        tprob = tprob.tolil()

    n_states = tprob.shape[0]

    # R is the list of probabilities of going from a state to an absorbing one
    R = tprob[:, sinks]
    R[sinks] = 1.0
    R[sources] = 0.0

    # (I-Q)
    I_m_Q = _I_m_Q(tprob, all_absorbing, n_states=n_states)

    # solves for committors: committors = N*R, where N = (I-Q)^-1
    with warnings.catch_warnings():
        # ignore 'SparseEfficiencyWarning: spsolve requires A be CSC or CSR
        # matrix format'; TODO: is this because I_m_Q is dense?
        warnings.simplefilter("ignore")
        # solve for probability of landing in any of the sink states
        B = scipy.sparse.linalg.spsolve(I_m_Q, R)
        # reshape and sum over probabilities
        committors = B.reshape(n_states, sinks.shape[0]).sum(axis=1)
        # ensure sink states have correct sinkage
        committors[sinks] = 1.0

    return committors


def mfpts(tprob, sinks=None, populations=None, lagtime=1.):
    """Calclate the mean first passage times for all states in an MSM.
    Either all to all or to a set of sinks.

    Parameters
    ----------
    tprob : array, shape (n_states, n_states)
        Transition probability matrix.
    sinks : array_like, int (n_sinks, )
        The set of folded/product states.
    popualtions : array, shape (n_states, ), default = None
        List of equilibrium populations.
    lagtime : float, default = 1.0
        The lagtime to scale values by. If not specified (1.0), units
        are in lagtimes.

    Returns
    -------
    mfpts : np.ndarray
        The mean first passage times from all to all, or all to a set
        of sinks.
    """
    if scipy.sparse.issparse(tprob):
        # the fundamental-matrix and linear-solve routes below are dense
        tprob = tprob.toarray()

    n_states = tprob.shape[0]
    if populations is None:
        populations = eq_probs(tprob)

    # if there are no sink states, calculates the mfpts from all to all
    # usin the fundamental matrix, Z
    if sinks is None:
        # Fundamental matrix, Z, is calculated as (I - T - W)^-1 where I
        # is the identity matrix, T is the probabiiy matix, and each row
        # in W is the equilibrium populations
        W = np.array([populations] * n_states)
        Z = np.linalg.inv(np.eye(n_states) - tprob + W)
        mfpts = lagtime * (np.diag(Z) - Z) / W
    # if there are a set of sink states, calcuate average time t
    # absorption with the relationship: t = N*c, where N = (I-Q)^-1
    # and c is a row of 1's
    else:

        # reshape sinks
        sinks = np.array(sinks, dtype=int).reshape((-1, 1)).flatten()

        # calculates (I-Q) to solve t
        I_m_Q = _I_m_Q(tprob, sinks, n_states=n_states)

        # solve for t and multiply by lagtime
        c = np.ones(n_states)
        c[sinks] = 0
        mfpts = lagtime * np.linalg.solve(I_m_Q, c)
    return mfpts

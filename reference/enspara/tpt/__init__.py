"""Transition path theory
"""

from .core import committors, mfpts
from .tpt import reactive_fluxes, net_fluxes, reactive_populations
from .path import paths, top_path

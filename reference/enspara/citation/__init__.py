import atexit

from . import citation
from .citation import cite


atexit.register(citation.citation_printer)
citation.add_citation('enspara')

import os
import json
import functools

from ..exception import ImproperlyConfigured


def load_citation_db():
    db = set()
    with open(os.path.join(os.path.dirname(__file__), 'articles.json')) as f:
        db = json.load(f)

    for v in db.values():
        assert 'doi' in v
        assert 'title' in v
        assert 'year' in v
        assert len(v['authors']) > 1

    return db


def citation_printer():
    s = ("Thanks for using enspara! Please read "
         "and cite the folllowing articles:\n")

    for k in USED_CITATIONS:
        s += str(CITATION_DB[k]) + '\n'

    print(s)


def add_citation(citekey):
    if citekey not in CITATION_DB:
        raise ImproperlyConfigured(
            "Cannot cite %s, wasn't in citation db:\n%s" %
            (citekey, list(CITATION_DB.keys())))
    USED_CITATIONS.add(citekey)


def cite(citekey):
    def cite_decorator(func):
        @functools.wraps(func)
        def wrapper(*args, **kwargs):
            add_citation(citekey)
            return func(*args, **kwargs)
        return wrapper
    return cite_decorator


CITATION_DB = load_citation_db()
USED_CITATIONS = set()
